"""Shared helpers of the C09 driver: knot vectors from the shape alphabet, geometry construction (real
pyiga object + exact polynomial model), comparison helpers."""
from fractions import Fraction

import numpy as np

from ref import bsp, galerkin as G, kvs as KV

RTOL = 1e-10        # norm-wise, implementation vs exact rational reference (unchanged tree, thorough space: <= 6e-15)
RTOL_ROUTES = 1e-12  # norm-wise, two assembly routes of the same bilinear form (unchanged tree: <= 1.2e-15)


def _make_roomy():
    """CPython 3.12 keeps Python frames on a 'data stack' of 16 KB chunks obtained with mmap and unmaps a chunk as
    soon as its first frame is popped.  A hot loop whose calls straddle a chunk boundary then pays mmap+munmap per
    call (measured here: the same cases 1.4 s vs 12..160 s depending only on the call depth of the caller).  A
    function with a huge frame (8400 locals = 67 KB) always starts a fresh 128 KB chunk and stays its first frame for
    the whole duration of the call, so everything it calls has ~60 KB of frame space without a boundary."""
    k = 8400
    src = "def roomy(fn, *a):\n    if fn is None:\n        %s = None\n    return fn(*a)\n" % " = ".join("v%d" % i for i in range(k))
    ns = {}
    exec(compile(src, "<roomy>", "exec"), ns)
    return ns["roomy"]


try:
    from mc.par import roomy           # the framework's copy (same construction); compiling the big frame costs 0.3 s
except ImportError:                     # pragma: no cover
    roomy = _make_roomy()


def dedupe(probs):
    seen, out = set(), []
    for k, m in probs:
        if k not in seen:
            seen.add(k)
            out.append((k, m))
    return out


def axis_objects(axis):
    """axis = [p, pattern, mults] -> (pyiga KnotVector, RefKV, breaks)"""
    from pyiga import bspline
    p, name, m = axis
    br = KV.PATTERNS[name]
    kn = KV.knots_from(br, m, p)
    return bspline.KnotVector(kn.copy(), p), bsp.RefKV(kn, p), br


def dense(A):
    if hasattr(A, "toarray"):
        return A.toarray()
    return np.asarray(A, dtype=float)


class Lib:
    """calls into the library: an exception on a legal input is a problem of the case, not a crash"""
    def __init__(self, probs):
        self.probs = probs
        self.calls = 0

    def __call__(self, part, what, fn, *a, **kw):
        self.calls += 1
        try:
            return fn(*a, **kw)
        except Exception as e:
            self.probs.append(("%s:exception:%s" % (part, type(e).__name__), "%s raised %r" % (what, e)))
            return None


def cmp(name, got, ref, probs, key, rtol=RTOL, scale=None, stats=None):
    """norm-wise comparison |got - ref|_max <= rtol * max|ref| (or the given scale); got=None (the call
    raised, already recorded) is skipped"""
    if got is None:
        return False
    try:
        got = dense(got)
    except Exception as e:
        probs.append((key + ":type", "%s: result cannot be converted to an array: %r" % (name, e)))
        return False
    ref = np.asarray(ref, dtype=float)
    if got.shape != ref.shape:
        probs.append((key + ":shape", "%s: shape %s, expected %s" % (name, got.shape, ref.shape)))
        return False
    if not np.all(np.isfinite(got)):
        probs.append((key + ":nonfinite", "%s: non-finite entries" % name))
        return False
    sc = float(np.abs(ref).max()) if scale is None else float(scale)
    err = float(np.abs(got - ref).max()) if ref.size else 0.0
    if stats is not None and sc > 0:
        stats[key] = max(stats.get(key, 0.0), err / sc)
    if err > rtol * sc:
        bad = np.unravel_index(np.argmax(np.abs(got - ref)), ref.shape)
        probs.append((key, "%s: deviates from the reference by %.3g at %s (got %.17g, expected %.17g; scale %.3g)"
                      % (name, err, tuple(int(b) for b in bad), got[bad], ref[bad], sc)))
        return False
    return True


def monomial(exps):
    """callable f(x, y[, z]) = x^a y^b [z^c] (xyz order, exps = (a, b[, c])); works for scalars and arrays"""
    exps = tuple(int(e) for e in exps)

    def f(*X):
        r = 1.0
        for x, e in zip(X, exps):
            if e:
                r = r * x ** e
        if all(e == 0 for e in exps):
            r = 1.0 + 0.0 * X[0]
        return r
    return f


# -------------------------------------------------------------------------------------------------
# geometries
# -------------------------------------------------------------------------------------------------

def box_of(axes):
    return [(KV.PATTERNS[a[1]][0], KV.PATTERNS[a[1]][-1]) for a in axes]


def corners_identity(box):
    """corner dict of the identity map on the box: J (axis-indexed) -> (x, y[, z]) with x = last axis"""
    d = len(box)
    out = {}
    for J in np.ndindex(*(2,) * d):
        pt_axis = [box[k][J[k]] for k in range(d)]
        out[J] = tuple(pt_axis[::-1])
    return out


def corners_from_spec(spec, box):
    """geo spec -> corner dict of a multilinear map.
    {"type": "identity"}
    {"type": "affine", "A": [[..]], "b": [..]}: unit-box-normalised parameters t (xyz order) -> A t + b
    {"type": "corners", "corners": [[J..., [x,y(,z)]], ...]}: explicit images of the 2^d corners (J axis-indexed)
    """
    d = len(box)
    if spec["type"] == "identity":
        return corners_identity(box)
    if spec["type"] == "affine":
        A, b = spec["A"], spec["b"]
        out = {}
        for J in np.ndindex(*(2,) * d):
            t = list(J)[::-1]           # xyz-ordered unit parameters
            out[J] = tuple(Fraction(b[i]) + sum(Fraction(A[i][c]) * t[c] for c in range(d)) for i in range(d))
        return out
    if spec["type"] == "corners":
        return {tuple(J): tuple(P) for J, P in spec["corners"]}
    raise ValueError(spec)


def make_geo(spec, box):
    """(pyiga BSplineFunc of degree 1 per direction on the box, exact MultilinearMap)"""
    from pyiga import bspline
    corners = corners_from_spec(spec, box)
    mm = G.MultilinearMap(box, corners)
    kvs1 = tuple(bspline.KnotVector(np.array([a, a, b, b], dtype=float), 1) for a, b in box)
    geo = bspline.BSplineFunc(kvs1, mm.coeff_array())
    return geo, mm


def scaled_min_eig(A, z=None):
    """smallest eigenvalue of D^-1/2 (A) D^-1/2 (+ z z^T with the congruence-transformed, normalised z),
    D = diag(A); (None, reason) if the diagonal is not positive"""
    A = np.asarray(A, dtype=float)
    A = 0.5 * (A + A.T)
    dg = np.diag(A).copy()
    if np.any(dg <= 0) or not np.all(np.isfinite(dg)):
        return None
    s = 1.0 / np.sqrt(dg)
    S = A * s[:, None] * s[None, :]
    if z is not None:
        zz = np.asarray(z, dtype=float) / s
        zz = zz / np.linalg.norm(zz)
        S = S + np.outer(zz, zz)
    return float(np.linalg.eigvalsh(S)[0])
