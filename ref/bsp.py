"""Exact reference for univariate B-splines: Cox-de Boor recursion in fractions.Fraction.

Conventions (those of the property statements): basis functions are right-continuous, and
left-continuous at the right end point of the knot vector; derivatives at a knot are those of the
polynomial piece selected by that convention.  Float knots/points are converted exactly.
Independent of pyiga (numpy only for the float-array convenience wrappers).
"""
from fractions import Fraction
from functools import lru_cache

import numpy as np


def F(x):
    return x if isinstance(x, Fraction) else Fraction(x)


class RefKV:
    def __init__(self, knots, p):
        self.kn = tuple(F(float(k)) if not isinstance(k, Fraction) else k for k in knots)
        self.knf = tuple(float(k) for k in knots)
        self.p = int(p)
        self.n = len(self.kn) - self.p - 1        # number of basis functions
        self._cache = {}

    # -- structure ------------------------------------------------------------------------------
    def is_open(self):
        p, kn = self.p, self.kn
        if len(kn) < 2 * (p + 1) or kn[0] == kn[-1]:
            return False
        if any(k != kn[0] for k in kn[:p + 1]) or any(k != kn[-1] for k in kn[-(p + 1):]):
            return False
        interior = kn[p + 1:len(kn) - p - 1]
        return all(kn[0] < k < kn[-1] for k in interior) and all(a <= b for a, b in zip(kn, kn[1:]))

    def breakpoints(self):
        out = []
        for k in self.kn:
            if not out or k != out[-1]:
                out.append(k)
        return out

    def mults(self):
        bp = self.breakpoints()
        return [sum(1 for k in self.kn if k == b) for b in bp]

    def span_of(self, u):
        """index s of the unique non-empty knot span with kn[s] <= u < kn[s+1]; the last non-empty span
        for u == right end"""
        u = F(u)
        kn = self.kn
        if not (kn[0] <= u <= kn[-1]):
            raise ValueError("point outside the domain")
        if u == kn[-1]:
            s = len(kn) - 2
            while kn[s] == kn[s + 1]:
                s -= 1
            return s
        s = 0
        for i in range(len(kn) - 1):
            if kn[i] <= u < kn[i + 1]:
                s = i
        return s

    # -- evaluation -----------------------------------------------------------------------------
    def _tables(self, u):
        """N[q][i] for q = 0..p, all i (dict), on the span selected by the convention"""
        u = F(u)
        key = u
        if key in self._cache:
            return self._cache[key]
        kn, p = self.kn, self.p
        s = self.span_of(u)
        N = [dict() for _ in range(p + 1)]
        N[0][s] = Fraction(1)
        for q in range(1, p + 1):
            for i in range(s - q, s + 1):
                if i < 0 or i + q + 1 > len(kn) - 1:
                    continue
                v = Fraction(0)
                a = N[q - 1].get(i, 0)
                if a:
                    v += (u - kn[i]) / (kn[i + q] - kn[i]) * a
                b = N[q - 1].get(i + 1, 0)
                if b:
                    v += (kn[i + q + 1] - u) / (kn[i + q + 1] - kn[i + 1]) * b
                if v:
                    N[q][i] = v
        self._cache[key] = (s, N)
        if len(self._cache) > 4096:
            self._cache.clear()
        return s, N

    def deriv_all(self, u, maxder):
        """list over k = 0..maxder of dict i -> exact k-th derivative of N_{i,p} at u (only non-zeros)"""
        s, N = self._tables(u)
        kn, p = self.kn, self.p
        memo = {}

        def D(i, q, k):
            # k-th derivative of N_{i,q}
            if k == 0:
                return N[q].get(i, Fraction(0)) if q >= 0 else Fraction(0)
            if q == 0 or k > q:
                return Fraction(0)
            key = (i, q, k)
            if key in memo:
                return memo[key]
            v = Fraction(0)
            d1 = kn[i + q] - kn[i]
            if d1 != 0:
                v += q * D(i, q - 1, k - 1) / d1
            d2 = kn[i + q + 1] - kn[i + 1]
            if d2 != 0:
                v -= q * D(i + 1, q - 1, k - 1) / d2
            memo[key] = v
            return v

        out = []
        for k in range(maxder + 1):
            dk = {}
            for i in range(max(0, s - p), min(self.n - 1, s) + 1):
                v = D(i, p, k)
                if v:
                    dk[i] = v
            out.append(dk)
        return s, out

    def active(self, u, maxder=0):
        """(first_active_index, array of shape (maxder+1, p+1) of floats) on the selected span"""
        s, ders = self.deriv_all(u, maxder)
        fa = s - self.p
        arr = np.zeros((maxder + 1, self.p + 1))
        for k, dk in enumerate(ders):
            for i, v in dk.items():
                arr[k, i - fa] = float(v)
        return fa, arr

    def active_exact(self, u, maxder=0):
        s, ders = self.deriv_all(u, maxder)
        fa = s - self.p
        return fa, [[dk.get(fa + j, Fraction(0)) for j in range(self.p + 1)] for dk in ders]

    def colloc(self, pts, der=0):
        """dense collocation matrix (len(pts) x n) of the der-th derivatives, floats"""
        C = np.zeros((len(pts), self.n))
        for r, u in enumerate(pts):
            s, ders = self.deriv_all(u, der)
            for i, v in ders[der].items():
                C[r, i] = float(v)
        return C

    def greville(self):
        p, kn = self.p, self.kn
        if p == 0:
            return [(kn[i] + kn[i + 1]) / 2 for i in range(self.n)]
        return [sum(kn[i + 1:i + p + 1], Fraction(0)) / p for i in range(self.n)]


# -------------------------------------------------------------------------------------------------
# exact knot insertion / refinement (Boehm), as matrices of Fractions
# -------------------------------------------------------------------------------------------------

def insertion_matrix(knots, p, u):
    """Boehm: matrix (n+1) x n mapping coefficients over `knots` to coefficients over knots + {u}.
    Returns (new_knots, matrix as list of rows of Fractions)."""
    kn = [F(k) for k in knots]
    u = F(u)
    n = len(kn) - p - 1
    # k = index with kn[k] <= u < kn[k+1] (u == right end is not admissible for insertion)
    ks = [i for i in range(len(kn) - 1) if kn[i] <= u < kn[i + 1]]
    k = ks[-1]
    new = kn[:k + 1] + [u] + kn[k + 1:]
    M = [[Fraction(0)] * n for _ in range(n + 1)]
    for i in range(n + 1):
        if i <= k - p:
            a = Fraction(1)
        elif i > k:
            a = Fraction(0)
        else:
            den = kn[i + p] - kn[i]
            a = (u - kn[i]) / den if den != 0 else Fraction(0)
        if i < n and a != 0:
            M[i][i] += a
        if i >= 1 and (1 - a) != 0:
            M[i][i - 1] += 1 - a
    return new, M


def refinement_matrix(coarse, fine, p):
    """matrix (n_fine x n_coarse) of Fractions expressing coarse B-splines in the fine basis; `fine` must
    contain `coarse` as a sub-multiset."""
    cur = [F(k) for k in coarse]
    fin = sorted(F(k) for k in fine)
    # multiset difference
    from collections import Counter
    need = Counter(fin) - Counter(cur)
    if Counter(cur) - Counter(fin):
        raise ValueError("fine knot vector does not contain the coarse one")
    n = len(cur) - p - 1
    P = [[Fraction(1) if i == j else Fraction(0) for j in range(n)] for i in range(n)]
    for u in sorted(need.elements()):
        cur, M = insertion_matrix(cur, p, u)
        # P = M @ P
        rows = []
        for i in range(len(M)):
            row = [Fraction(0)] * n
            for j, mij in enumerate(M[i]):
                if mij:
                    Pj = P[j]
                    for c in range(n):
                        if Pj[c]:
                            row[c] += mij * Pj[c]
            rows.append(row)
        P = rows
    assert cur == fin
    return P


def to_float(M):
    return np.array([[float(x) for x in row] for row in M], dtype=float).reshape(len(M), -1)
