"""Textbook Gauss-Seidel relaxation in exact rational arithmetic (reference for C11).

One relaxation of row i of  A x = b :      x_i <- (b_i - sum_{j != i} a_ij x_j) / a_ii .
A *sweep* relaxes a list of rows one after the other, each update seeing all earlier ones:

    forward    rows in the order of the index list (default 0, 1, ..., n-1)
    backward   rows in the reversed order of the index list
    symmetric  one forward sweep followed by one backward sweep
    iterations the whole sweep is repeated

The result is an affine function of (x, b):  x_out = E x_in + G b.  `operators` propagates the pair (E, G)
symbolically (rows of Fractions), which decides the update for *every* starting vector and right-hand side.
Independent of pyiga (fractions, itertools only).
"""
import itertools
from fractions import Fraction


def row_order(n, indices=None, sweep="forward", iterations=1):
    """the list of rows relaxed, in order"""
    idx = list(range(n)) if indices is None else [int(i) for i in indices]
    if sweep == "forward":
        one = idx
    elif sweep == "backward":
        one = idx[::-1]
    elif sweep == "symmetric":
        one = idx + idx[::-1]
    else:
        raise ValueError(sweep)
    return one * int(iterations)


def relax(A, x, b, order):
    """in-place textbook relaxation of the rows in `order`; A: n x n nested list, x, b lists (any exact
    number type).  Returns the largest magnitude any entry of x took (for scaling tolerances)."""
    n = len(x)
    scale = max([abs(v) for v in x] + [0])
    for i in order:
        s = 0
        for j in range(n):
            if j != i and A[i][j] != 0:
                s += A[i][j] * x[j]
        x[i] = Fraction(b[i] - s) / Fraction(A[i][i])
        if abs(x[i]) > scale:
            scale = abs(x[i])
    return scale


def operators(A, order):
    """(E, G, scale) with x_out = E x_in + G b for relaxing the rows in `order`; nested lists of Fractions;
    scale = largest magnitude of any coefficient met on the way (>= 1), for scaling float tolerances"""
    n = len(A)
    # row i of the state: coefficients of x_i in terms of (x_in, b)
    rows = [[Fraction(int(i == j)) for j in range(n)] + [Fraction(0)] * n for i in range(n)]
    scale = Fraction(1)
    for i in order:
        new = [Fraction(0)] * (2 * n)
        new[n + i] = Fraction(1)
        for j in range(n):
            if j != i and A[i][j] != 0:
                a = A[i][j]
                rj = rows[j]
                for k in range(2 * n):
                    if rj[k] != 0:
                        new[k] -= a * rj[k]
        d = Fraction(A[i][i])
        rows[i] = [v / d for v in new]
        scale = max([scale] + [abs(v) for v in rows[i]])
    E = [r[:n] for r in rows]
    G = [r[n:] for r in rows]
    return E, G, scale


def apply_affine(E, G, x, b):
    n = len(E)
    return [sum(E[i][j] * x[j] for j in range(n)) + sum(G[i][j] * b[j] for j in range(n)) for i in range(n)]


def ordered_subsets(n, maxlen=None):
    """every ordered subset of range(n) without repetition, shortest first (including the empty list)"""
    out = []
    for r in range(0, (n if maxlen is None else maxlen) + 1):
        out.extend(list(p) for p in itertools.permutations(range(n), r))
    return out


def offdiag_positions(n):
    return [(i, j) for i in range(n) for j in range(n) if i != j]


def pattern_mask(n, code):
    """bit k of `code` set <=> the k-th off-diagonal position (row-major) is in the sparsity pattern"""
    pos = offdiag_positions(n)
    return {pos[k] for k in range(len(pos)) if (code >> k) & 1}


def is_symmetric_pattern(n, code):
    m = pattern_mask(n, code)
    return all((j, i) in m for (i, j) in m)


def symmetric_patterns(n):
    return [c for c in range(2 ** (n * (n - 1))) if is_symmetric_pattern(n, c)]


# ----------------------------------------------------------------------------------------------------
# integer value sets on a pattern (all entries small integers, diagonal non-zero)
# ----------------------------------------------------------------------------------------------------

_OFF = (1, -2, 3, -1, 2, -3)


def matrix(n, code, values, seed=0):
    """n x n nested list of ints.  values:
      dom     arbitrary pattern, mixed-sign off-diagonals, strictly row-dominant diagonal of alternating sign
      nonsym  arbitrary pattern, non-symmetric values, small non-dominant diagonal of mixed sign
      spd     symmetric pattern: off-diagonal +-1, diagonal degree+1            (SPD, dominant)
      psd     symmetric pattern: graph Laplacian, isolated vertices get 1       (positive semidefinite)
      gram    symmetric pattern: M^T M + I with M = I + 2*strict upper part     (SPD, not dominant)
    """
    m = pattern_mask(n, code)
    A = [[0] * n for _ in range(n)]
    if values in ("dom", "nonsym"):
        for (i, j) in m:
            A[i][j] = _OFF[(3 * i + 5 * j + seed) % 6]
        for i in range(n):
            if values == "dom":
                d = sum(abs(v) for v in A[i]) + 1 + (i + seed) % 2
                A[i][i] = d if (i + seed) % 3 != 1 else -d
            else:
                A[i][i] = (1, -1, 2, -2)[(i + seed) % 4]
        return A
    if not is_symmetric_pattern(n, code):
        raise ValueError("value set %s needs a symmetric pattern" % values)
    if values == "spd":
        for (i, j) in m:
            A[i][j] = -1 if (min(i, j) + max(i, j) + seed) % 3 else 1
        for i in range(n):
            A[i][i] = sum(abs(v) for v in A[i]) + 1
        return A
    if values == "psd":
        for (i, j) in m:
            A[i][j] = -1
        for i in range(n):
            A[i][i] = max(1, -sum(A[i]))
        return A
    if values == "gram":
        M = [[int(i == j) for j in range(n)] for i in range(n)]
        for (i, j) in m:
            if i < j:
                M[i][j] = 2 if (i + j + seed) % 2 else -2
        for i in range(n):
            for j in range(n):
                A[i][j] = sum(M[k][i] * M[k][j] for k in range(n)) + int(i == j)
        return A
    raise ValueError(values)
