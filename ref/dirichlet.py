"""Reference models for C10 (elimination of Dirichlet dofs, boundary conditions).

Boring and independent of pyiga (numpy, fractions, itertools only):
  * ordered index subsets, exact rational linear algebra, integer test matrices with non-zero minors
  * the dictionary model of a restricted linear system ("dof i has value g_i", "row r is kept")
  * open knot vectors, Greville abscissae, Cox-de Boor basis values, end-point derivatives
  * face dofs of a tensor-product basis (open knot vectors: first/last index along the face axis)
"""
import itertools
from fractions import Fraction

import numpy as np


# ------------------------------------------------------------------------------------------------
# index subsets
# ------------------------------------------------------------------------------------------------

def ordered_subsets(n, k=None):
    """every ordered subset (= arrangement without repetition) of range(n), simplest first:
    by size, then sorted arrangements before unsorted ones, then lexicographic."""
    sizes = range(n + 1) if k is None else [k]
    out = []
    for s in sizes:
        perms = list(itertools.permutations(range(n), s))
        perms.sort(key=lambda t: (list(t) != sorted(t), t))
        out += [list(t) for t in perms]
    return out


# ------------------------------------------------------------------------------------------------
# exact linear algebra
# ------------------------------------------------------------------------------------------------

def frac_matrix(M):
    return [[Fraction(x) for x in row] for row in M]


def solve_fraction(A, b):
    """Gaussian elimination in exact rationals; A square list-of-lists, b list.  None if singular."""
    n = len(A)
    M = [[Fraction(x) for x in row] + [Fraction(b[i])] for i, row in enumerate(A)]
    for c in range(n):
        piv = None
        for r in range(c, n):
            if M[r][c] != 0:
                piv = r
                break
        if piv is None:
            return None
        M[c], M[piv] = M[piv], M[c]
        pv = M[c][c]
        M[c] = [x / pv for x in M[c]]
        for r in range(n):
            if r != c and M[r][c] != 0:
                f = M[r][c]
                M[r] = [x - f * y for x, y in zip(M[r], M[c])]
    return [M[i][n] for i in range(n)]


def det_fraction(A):
    n = len(A)
    if n == 0:
        return Fraction(1)
    M = [[Fraction(x) for x in row] for row in A]
    det = Fraction(1)
    for c in range(n):
        piv = None
        for r in range(c, n):
            if M[r][c] != 0:
                piv = r
                break
        if piv is None:
            return Fraction(0)
        if piv != c:
            M[c], M[piv] = M[piv], M[c]
            det = -det
        det *= M[c][c]
        for r in range(c + 1, n):
            if M[r][c] != 0:
                f = M[r][c] / M[c][c]
                M[r] = [x - f * y for x, y in zip(M[r], M[c])]
    return det


def principal_minors_nonzero(A):
    n = len(A)
    for k in range(1, n + 1):
        for cols in itertools.combinations(range(n), k):
            if det_fraction([[A[r][c] for c in cols] for r in cols]) == 0:
                return False
    return True


def make_matrix(m, n, seed, holes=False):
    """m x n matrix of small distinct non-zero integers (non-symmetric) such that every square
    sub-matrix (rows x columns of equal size) is nonsingular; with holes=True (square only) about a third
    of the off-diagonal entries are zero and every *principal* sub-matrix is nonsingular.
    The seed only selects the numeric payload."""
    pool = [v for a in range(1, m * n + 6) for v in (a, -a)]
    for attempt in range(10000):
        rng = np.random.RandomState((seed * 7919 + m * 101 + n * 11 + (5 if holes else 0)) * 10007 + attempt)
        vals = rng.permutation(pool)[:m * n]
        A = [[int(vals[i * n + j]) for j in range(n)] for i in range(m)]
        if holes:
            off = [(i, j) for i in range(m) for j in range(n) if i != j]
            for q in rng.permutation(len(off))[:(len(off) + 2) // 3]:
                A[off[q][0]][off[q][1]] = 0
        if m == n and n > 1 and all(A[i][j] == A[j][i] for i in range(n) for j in range(n)):
            continue
        if principal_minors_nonzero(A) if holes else all_square_submatrices_nonsingular(A):
            return A
    raise RuntimeError("no admissible test matrix found")


def all_square_submatrices_nonsingular(A):
    m, n = len(A), len(A[0])
    for k in range(1, min(m, n) + 1):
        for rows in itertools.combinations(range(m), k):
            for cols in itertools.combinations(range(n), k):
                if det_fraction([[A[r][c] for c in cols] for r in rows]) == 0:
                    return False
    return True


# ------------------------------------------------------------------------------------------------
# dictionary model of the restricted system
# ------------------------------------------------------------------------------------------------

class RestrictedModel:
    """A: m x n integers, b: m integers, constraints {dof: value}, eliminated rows (a set).
    free = dofs without a constraint, kept = rows not eliminated (both increasing)."""
    def __init__(self, A, b, idx, vals, rows=None):
        self.m, self.n = len(A), len(A[0])
        self.A, self.b = A, list(b)
        self.g = {int(i): v for i, v in zip(idx, vals)}
        if len(self.g) != len(idx):
            raise ValueError("duplicate dofs")
        elim = set(int(r) for r in (idx if rows is None else rows))
        self.free = [j for j in range(self.n) if j not in self.g]
        self.kept = [r for r in range(self.m) if r not in elim]
        self.gvec = [self.g.get(j, 0) for j in range(self.n)]

    def lifted_rhs(self):
        """b - A g (all rows)"""
        return [self.b[r] - sum(self.A[r][j] * self.gvec[j] for j in range(self.n)) for r in range(self.m)]

    def restricted(self):
        Ar = [[self.A[r][c] for c in self.free] for r in self.kept]
        lb = self.lifted_rhs()
        return Ar, [lb[r] for r in self.kept]

    def residual_problems(self, x):
        """x: full vector of Fractions.  Returns (bad constrained dofs, bad kept rows)."""
        bad_d = [j for j, v in sorted(self.g.items()) if x[j] != v]
        bad_r = [r for r in self.kept if sum(Fraction(self.A[r][j]) * x[j] for j in range(self.n)) != self.b[r]]
        return bad_d, bad_r


# ------------------------------------------------------------------------------------------------
# B-splines (open knot vectors)
# ------------------------------------------------------------------------------------------------

def knots(p, breaks, mults):
    kn = [breaks[0]] * (p + 1)
    for x, m in zip(breaks[1:-1], mults):
        kn += [x] * m
    kn += [breaks[-1]] * (p + 1)
    return [float(x) for x in kn]


def numdofs(kn, p):
    return len(kn) - p - 1


def greville(kn, p):
    n = numdofs(kn, p)
    return np.array([sum(kn[i + 1:i + p + 1]) / p for i in range(n)])


def basis_values(kn, p, x, num=float):
    """values of all B-splines of degree p at x (Cox-de Boor; the last span is closed on the right)"""
    kn = [num(t) for t in kn]
    x = num(x)
    nk = len(kn)
    # degree 0
    last = max(i for i in range(nk - 1) if kn[i] < kn[i + 1])
    B = []
    for i in range(nk - 1):
        inside = kn[i] <= x < kn[i + 1] or (i == last and x == kn[i + 1])
        B.append(num(1) if (kn[i] < kn[i + 1] and inside) else num(0))
    for q in range(1, p + 1):
        Bn = []
        for i in range(nk - 1 - q):
            v = num(0)
            if kn[i + q] > kn[i]:
                v += (x - kn[i]) / (kn[i + q] - kn[i]) * B[i]
            if kn[i + q + 1] > kn[i + 1]:
                v += (kn[i + q + 1] - x) / (kn[i + q + 1] - kn[i + 1]) * B[i + 1]
            Bn.append(v)
        B = Bn
    return B


def basis_derivs(kn, p, x, num=float):
    """first derivatives of all B-splines of degree p at x:
    B'_{i,p} = p ( B_{i,p-1}/(t_{i+p}-t_i) - B_{i+1,p-1}/(t_{i+p+1}-t_{i+1}) )"""
    if p == 0:
        return [num(0)] * numdofs(kn, p)
    low = basis_values(kn, p - 1, x, num)     # len(kn) - p functions
    knn = [num(t) for t in kn]
    out = []
    for i in range(numdofs(kn, p)):
        v = num(0)
        if knn[i + p] > knn[i]:
            v += low[i] / (knn[i + p] - knn[i])
        if knn[i + p + 1] > knn[i + 1]:
            v -= low[i + 1] / (knn[i + p + 1] - knn[i + 1])
        out.append(p * v)
    return out


def collocation(kn, p, xs):
    return np.array([basis_values(kn, p, x) for x in xs], float)


def apply_axes(mats, C):
    """apply mats[k] along axis k of the array C (trailing axes untouched)"""
    C = np.asarray(C, float)
    for k, M in enumerate(mats):
        C = np.moveaxis(np.tensordot(M, C, axes=(1, k)), 0, k)
    return C


# ------------------------------------------------------------------------------------------------
# faces
# ------------------------------------------------------------------------------------------------

def face_dofs(shape, ax, side):
    """increasing raveled indices of the multi-indices with i[ax] == 0 (side 0) or shape[ax]-1 (side 1)"""
    want = 0 if side == 0 else shape[ax] - 1
    return [int(np.ravel_multi_index(mi, shape)) for mi in itertools.product(*(range(s) for s in shape))
            if mi[ax] == want]


def slice_dofs(shape, ax, pos):
    return [int(np.ravel_multi_index(mi, shape)) for mi in itertools.product(*(range(s) for s in shape))
            if mi[ax] == pos]


FACE_NAMES = {(1, 0): "left", (1, 1): "right", (2, 0): "bottom", (2, 1): "top", (3, 0): "front", (3, 1): "back"}


def face_name(dim, ax, side):
    """documented string for the face: 'left' = x low, where x is the LAST parameter axis"""
    return FACE_NAMES[(dim - ax, side)]
