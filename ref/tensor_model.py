"""Dense reference semantics for the low-rank tensor formats (C18).  numpy / fractions only, no pyiga.

Every function takes and returns plain ndarrays (the "expanded" tensors); the checks compare
`asarray(real result)` with `op_dense(asarray(real operand))`.
"""
import itertools
from fractions import Fraction

import numpy as np


# ------------------------------------------------------------------------------------------------
# index expressions
# ------------------------------------------------------------------------------------------------
# JSON encoding of one per-axis item:  int | ["s", start, stop, step] | ["l", [i, j, ...]]

def decode_item(it):
    if isinstance(it, (int, np.integer)):
        return int(it)
    if it[0] == "s":
        return slice(it[1], it[2], it[3])
    if it[0] == "l":
        return [int(i) for i in it[1]]
    raise ValueError(it)


def decode_expr(items):
    """the Python object that goes between the brackets: a bare item for length 1, else a tuple"""
    dec = tuple(decode_item(it) for it in items)
    return dec[0] if len(dec) == 1 else dec


def ortho_index(A, items):
    """per-axis ("orthogonal") indexing: axis k is restricted to the positions selected by item k, integer
    items remove their axis, missing trailing items keep their axes.  Returns an ndarray (0-d if all
    axes are integer-indexed)."""
    A = np.asarray(A)
    items = list(items) + [["s", None, None, None]] * (A.ndim - len(items))
    assert len(items) == A.ndim
    out = A
    drop = []
    for k, it in enumerate(items):
        n = A.shape[k]
        if isinstance(it, (int, np.integer)):
            pos = [range(n)[int(it)]]
            drop.append(k)
        elif it[0] == "s":
            pos = list(range(n)[slice(it[1], it[2], it[3])])
        else:
            pos = [range(n)[int(i)] for i in it[1]]
        out = np.take(out, np.asarray(pos, dtype=int), axis=k)
    if drop:
        out = out.reshape([s for k, s in enumerate(out.shape) if k not in drop])
    return out


def numpy_agrees(shape, items):
    """True iff numpy's own result for this index expression on an array of this shape coincides with
    per-axis indexing (it does not when an index list and an integer are separated by a slice, or
    with two index lists -- numpy then pairs / moves the advanced axes).  Only expressions for which the
    two coincide are unambiguous 'standard numpy [] indexing'."""
    A = np.arange(1, 1 + int(np.prod(shape)), dtype=float).reshape(shape)
    want = ortho_index(A, items)
    try:
        got = np.asarray(A[decode_expr(items)])
    except Exception:
        return False
    return got.shape == want.shape and np.array_equal(got, want)


# ------------------------------------------------------------------------------------------------
# multilinear algebra
# ------------------------------------------------------------------------------------------------

def mode_product(A, k, B):
    """contract axis k of A with the columns of the matrix B (new axis k has length B.shape[0])"""
    A = np.asarray(A)
    B = np.asarray(B)
    Am = np.moveaxis(A, k, -1)                       # (..., n_k)
    out = np.einsum("...j,ij->...i", Am, B)
    return np.moveaxis(out, -1, k)


def mode_products(A, mats):
    """mats[k] is a dense matrix or None (identity); trailing axes beyond len(mats) are untouched"""
    out = np.asarray(A)
    for k, B in enumerate(mats):
        if B is not None:
            out = mode_product(out, k, B)
    return out


def outer_all(arrays):
    out = np.asarray(arrays[0])
    for a in arrays[1:]:
        out = np.multiply.outer(out, np.asarray(a))
    return out


def canonical_dense(Xs):
    """sum over r of the outer products of the r-th columns"""
    Xs = [np.asarray(X) for X in Xs]
    shape = tuple(X.shape[0] for X in Xs)
    out = np.zeros(shape)
    for r in range(Xs[0].shape[1]):
        out = out + outer_all([X[:, r] for X in Xs])
    return out


def tucker_dense(Us, X):
    return mode_products(np.asarray(X), [np.asarray(U) for U in Us])


def pad_dense(A, widths):
    A = np.asarray(A)
    pw = [(0, 0) if w is None else (int(w[0]), int(w[1])) for w in widths]
    return np.pad(A, pw, "constant")


def kron_all(mats):
    out = np.asarray(mats[0])
    for M in mats[1:]:
        out = np.kron(out, np.asarray(M))
    return out


def unit_tensors(shape):
    for idx in itertools.product(*[range(n) for n in shape]):
        E = np.zeros(shape)
        E[idx] = 1.0
        yield idx, E


# ------------------------------------------------------------------------------------------------
# exact cross approximation (rational arithmetic)
# ------------------------------------------------------------------------------------------------

def frac_matrix(A):
    return [[Fraction(int(v)) for v in row] for row in np.asarray(A).tolist()]


def cross_step(R, i, j):
    """R - R[:,j] R[i,:] / R[i,j] in exact arithmetic; None if the pivot vanishes"""
    p = R[i][j]
    if p == 0:
        return None
    m, n = len(R), len(R[0])
    col = [R[a][j] for a in range(m)]
    row = list(R[i])
    return [[R[a][b] - col[a] * row[b] / p for b in range(n)] for a in range(m)]


def frac_is_zero(R):
    return all(v == 0 for row in R for v in row)


def frac_to_float(R):
    return np.array([[float(v) for v in row] for row in R], dtype=float).reshape(len(R), len(R[0]) if R else 0)


def exact_rank(A):
    """rank of an integer matrix by fraction Gaussian elimination"""
    M = frac_matrix(A)
    m = len(M)
    n = len(M[0]) if m else 0
    r = 0
    for c in range(n):
        piv = next((a for a in range(r, m) if M[a][c] != 0), None)
        if piv is None:
            continue
        M[r], M[piv] = M[piv], M[r]
        for a in range(r + 1, m):
            f = M[a][c] / M[r][c]
            if f != 0:
                M[a] = [x - f * y for x, y in zip(M[a], M[r])]
        r += 1
        if r == m:
            break
    return r
