"""Reference model for the time integrators (C12).  Independent of pyiga: numpy, fractions, math only.

Conventions (those of pyiga.solvers, read off the source):

DIRK tableau ``T`` (array of s+1 or s+2 rows, s columns): rows 0..s-1 = lower-triangular A, row s = main
weights b, optional row s+1 = embedded weights b_hat.  The problem is autonomous, M y' = F(y); one step is

    M Y_i = M x + tau * sum_{j<=i} a_ij F(Y_j),      x_new = x + tau * M^{-1} sum_i b_i F(Y_i)

(the implementation takes x_new = Y_s when b equals the last row of A -- the same thing).

Rosenbrock method (alpha, Gamma, b, b_hat), Gamma lower triangular *including* the diagonal gamma:

    (M - tau*gamma*J) k_i = F(x + tau * sum_{j<i} alpha_ij k_j) + tau * J * sum_{j<i} Gamma_ij k_j,   J = F'(x)
    x_new = x + tau * sum_i b_i k_i

i.e.  M k_i = F(y_i) + tau J sum_{j<=i} Gamma_ij k_j: the formulation of Hairer/Wanner IV.7 (7.4) with
k_i in units of the derivative, beta = alpha + Gamma.

Order conditions: one per rooted tree; the 8 trees of order <= 4 are named

    t1 = .      t2 = [.]      t31 = [.,.]   t32 = [[.]]
    t41 = [.,.,.]   t42 = [.,[.]]   t43 = [[.,.]]   t44 = [[[.]]]

with right-hand side 1/gamma(t) = 1, 1/2, 1/3, 1/6, 1/4, 1/8, 1/12, 1/24.  For a Rosenbrock method with
the exact Jacobian the elementary weight takes beta_jk on the edge below a singly-branched vertex j and
alpha_jk below a multiply-branched one (Hairer/Wanner IV.7, Thm 7.3); with the *full* beta (diagonal gamma
included in the row sums) the right-hand sides are again 1/gamma(t).
"""
from fractions import Fraction as Fr
import math

import numpy as np

TREES = ("t1", "t2", "t31", "t32", "t41", "t42", "t43", "t44")
TREE_ORDER = {"t1": 1, "t2": 2, "t31": 3, "t32": 3, "t41": 4, "t42": 4, "t43": 4, "t44": 4}
TREE_RHS = {"t1": Fr(1), "t2": Fr(1, 2), "t31": Fr(1, 3), "t32": Fr(1, 6),
            "t41": Fr(1, 4), "t42": Fr(1, 8), "t43": Fr(1, 12), "t44": Fr(1, 24)}


# ------------------------------------------------------------------------------------------------
# exact linear algebra on lists of Fractions
# ------------------------------------------------------------------------------------------------

def fr(x):
    """exact rational value of a float / int / Fraction"""
    if isinstance(x, Fr):
        return x
    if isinstance(x, (int,)):
        return Fr(x)
    return Fr(float(x))


def fmat(A):
    A = np.asarray(A, dtype=float)
    return [[Fr(float(v)) for v in row] for row in A]


def fvec(v):
    return [Fr(float(t)) for t in np.asarray(v, dtype=float).ravel()]


def matvec(A, x):
    return [sum((a * t for a, t in zip(row, x)), Fr(0)) for row in A]


def vadd(x, y):
    return [a + b for a, b in zip(x, y)]


def vscale(s, x):
    return [s * a for a in x]


def lincomb(coeffs, vecs, n):
    out = [Fr(0)] * n
    for c, v in zip(coeffs, vecs):
        if c != 0:
            out = [o + c * t for o, t in zip(out, v)]
    return out


def msub(A, s, B):
    """A - s*B"""
    return [[a - s * b for a, b in zip(ra, rb)] for ra, rb in zip(A, B)]


def solve(A, b):
    """Gaussian elimination with exact pivots (first non-zero); raises ZeroDivisionError if singular"""
    n = len(b)
    M = [list(row) + [b[i]] for i, row in enumerate(A)]
    for k in range(n):
        p = next((i for i in range(k, n) if M[i][k] != 0), None)
        if p is None:
            raise ZeroDivisionError("singular stage matrix")
        M[k], M[p] = M[p], M[k]
        piv = M[k][k]
        for i in range(k + 1, n):
            f = M[i][k] / piv
            if f != 0:
                M[i] = [a - f * c for a, c in zip(M[i], M[k])]
    x = [Fr(0)] * n
    for k in reversed(range(n)):
        x[k] = (M[k][n] - sum((M[k][j] * x[j] for j in range(k + 1, n)), Fr(0))) / M[k][k]
    return x


def tofloat(v):
    return np.array([float(t) for t in v])


# ------------------------------------------------------------------------------------------------
# order conditions
# ------------------------------------------------------------------------------------------------

def _dot(u, v):
    return sum((a * b for a, b in zip(u, v)), Fr(0))


def _elementary_weights(b, alpha, beta):
    """the 8 elementary weights for weights b, 'multiply-branched' matrix alpha, 'singly-branched' matrix
    beta (both s x s lists of Fractions); RK: alpha = beta = A"""
    s = len(b)
    one = [Fr(1)] * s
    a1 = matvec(alpha, one)            # alpha_i
    b1 = matvec(beta, one)             # beta_i (full row sums)
    a1sq = [t * t for t in a1]
    return {
        "t1": _dot(b, one),
        "t2": _dot(b, b1),
        "t31": _dot(b, a1sq),
        "t32": _dot(b, matvec(beta, b1)),
        "t41": _dot(b, [t ** 3 for t in a1]),
        "t42": _dot(b, [ai * w for ai, w in zip(a1, matvec(alpha, b1))]),
        "t43": _dot(b, matvec(beta, a1sq)),
        "t44": _dot(b, matvec(beta, matvec(beta, b1))),
    }


def rk_residuals(A, b):
    """{tree: Phi(tree) - 1/gamma(tree)} (exact Fractions of the float coefficients) for a Runge-Kutta
    method with matrix A (s x s) and weights b; abscissae c = A 1 (autonomous form)."""
    A = fmat(A)
    b = fvec(b)
    w = _elementary_weights(b, A, A)
    return {t: w[t] - TREE_RHS[t] for t in TREES}


def ros_residuals(alpha, Gamma, b):
    """the same for a Rosenbrock method in the formulation of the module docstring"""
    al = fmat(alpha)
    G = fmat(Gamma)
    beta = [[x + y for x, y in zip(ra, rg)] for ra, rg in zip(al, G)]
    w = _elementary_weights(fvec(b), al, beta)
    return {t: w[t] - TREE_RHS[t] for t in TREES}


def attained_order(res, tol):
    """largest p <= 4 such that all conditions of order <= p hold within tol"""
    p = 0
    for q in (1, 2, 3, 4):
        if all(abs(float(res[t])) <= tol for t in TREES if TREE_ORDER[t] == q):
            p = q
        else:
            break
    return p


def failing(res, order, tol):
    """{q: [(tree, residual)...]} for every q <= order having a violated condition"""
    out = {}
    for t in TREES:
        q = TREE_ORDER[t]
        if q <= order and abs(float(res[t])) > tol:
            out.setdefault(q, []).append((t, float(res[t])))
    return out


# ------------------------------------------------------------------------------------------------
# exact single steps
# ------------------------------------------------------------------------------------------------

def split_dirk(T):
    """(A, b, b_hat or None) from the pyiga tableau layout"""
    T = np.asarray(T, dtype=float)
    s = T.shape[1]
    if T.shape[0] not in (s + 1, s + 2):
        raise ValueError("tableau shape %s" % (T.shape,))
    return T[:s], T[s], (T[s + 1] if T.shape[0] == s + 2 else None)


def dirk_linear_exact(T, M, L, c, x, tau):
    """exact DIRK step for M y' = L y + c.  Everything lists of Fractions except T (float array).
    Returns dict(Y=[...], FY=[...], x_new=..., x_est=... or None)."""
    A, b, bh = split_dirk(T)
    s = A.shape[0]
    n = len(x)
    A = fmat(A)
    b = fvec(b)
    Mx = matvec(M, x)
    Y, FY = [], []
    for i in range(s):
        aii = A[i][i]
        rhs = vadd(Mx, vscale(tau, lincomb(A[i][:i], FY, n)))
        if aii == 0:
            # M Y = M x + tau * sum_{j<i} a_ij F_j
            y = solve(M, rhs) if any(A[i][j] != 0 for j in range(i)) else list(x)
        else:
            rhs = vadd(rhs, vscale(tau * aii, c))
            y = solve(msub(M, tau * aii, L), rhs)
        Y.append(y)
        FY.append(vadd(matvec(L, y), c))
    x_new = vadd(x, vscale(tau, solve(M, lincomb(b, FY, n))))
    out = {"Y": Y, "FY": FY, "x_new": x_new, "x_est": None}
    if bh is not None:
        out["x_est"] = vadd(x, vscale(tau, solve(M, lincomb(fvec(bh), FY, n))))
    return out


def ros_exact(alpha, Gamma, b, b_hat, M, F, Jx, x, tau):
    """exact Rosenbrock step; F maps a list of Fractions to a list of Fractions (any rational function),
    Jx = F'(x) as a matrix of Fractions."""
    al = fmat(alpha)
    G = fmat(Gamma)
    s = len(al)
    n = len(x)
    gam = G[0][0]
    C = msub(M, tau * gam, Jx)
    ks, Y = [], []
    for i in range(s):
        y = vadd(x, vscale(tau, lincomb(al[i][:i], ks, n)))
        rhs = F(y)
        if i > 0:
            rhs = vadd(rhs, vscale(tau, matvec(Jx, lincomb(G[i][:i], ks, n))))
        Y.append(y)
        ks.append(solve(C, rhs))
    out = {"Y": Y, "K": ks, "x_new": vadd(x, vscale(tau, lincomb(fvec(b), ks, n))), "x_est": None}
    if b_hat is not None:
        out["x_est"] = vadd(x, vscale(tau, lincomb(fvec(b_hat), ks, n)))
    return out


def dirk_stage_residual(T, i, M, x, tau, z, Fz, FY):
    """float residual  M z - M x - tau*sum_{j<i} a_ij FY_j - tau*a_ii*F(z)  of stage i at the point z"""
    A = np.asarray(T, dtype=float)
    r = M @ z - M @ x - tau * A[i, i] * Fz
    for j in range(i):
        r = r - tau * A[i, j] * FY[j]
    return r


# ------------------------------------------------------------------------------------------------
# plain float reference integrators (used for end-to-end runs and the empirical-order self test)
# ------------------------------------------------------------------------------------------------

def dirk_step_float(T, M, F, J, x, tau, newton_tol=1e-13, maxit=50):
    A, b, bh = split_dirk(T)
    s = A.shape[0]
    M = np.asarray(M, dtype=float)
    FY = []
    y = x
    for i in range(s):
        rhs = M @ x + tau * sum((A[i, j] * FY[j] for j in range(i)), np.zeros_like(x))
        if A[i, i] == 0:
            y = np.linalg.solve(M, rhs)
        else:
            y = np.array(y, dtype=float)
            for _ in range(maxit):
                res = M @ y - tau * A[i, i] * F(y) - rhs
                if np.linalg.norm(res) <= newton_tol * max(1.0, np.linalg.norm(rhs)):
                    break
                y = y - np.linalg.solve(M - tau * A[i, i] * J(y), res)
        FY.append(F(y))
    x_new = x + tau * np.linalg.solve(M, sum((b[i] * FY[i] for i in range(s)), np.zeros_like(x)))
    x_est = None
    if bh is not None:
        x_est = x + tau * np.linalg.solve(M, sum((bh[i] * FY[i] for i in range(s)), np.zeros_like(x)))
    return x_new, x_est


def ros_step_float(alpha, Gamma, b, b_hat, M, F, J, x, tau):
    alpha = np.asarray(alpha, float)
    Gamma = np.asarray(Gamma, float)
    s = alpha.shape[0]
    Jx = np.asarray(J(x), dtype=float)
    C = np.asarray(M, dtype=float) - tau * Gamma[0, 0] * Jx
    ks = []
    for i in range(s):
        y = x + tau * sum((alpha[i, j] * ks[j] for j in range(i)), np.zeros_like(x))
        rhs = F(y) + tau * Jx @ sum((Gamma[i, j] * ks[j] for j in range(i)), np.zeros_like(x))
        ks.append(np.linalg.solve(C, rhs))
    x_new = x + tau * sum((b[i] * ks[i] for i in range(s)), np.zeros_like(x))
    x_est = None
    if b_hat is not None:
        x_est = x + tau * sum((b_hat[i] * ks[i] for i in range(s)), np.zeros_like(x))
    return x_new, x_est


def empirical_order(step, x0, t_end, exact, n0=8, levels=4):
    """observed convergence orders log2(e_h / e_{h/2}) for n0*2^k constant steps of `step(x, tau)`"""
    errs = []
    for k in range(levels):
        n = n0 * 2 ** k
        tau = t_end / n
        x = np.array(x0, dtype=float)
        for _ in range(n):
            x = step(x, tau)
        errs.append(float(np.max(np.abs(x - exact))))
    return [math.log2(errs[k] / errs[k + 1]) if errs[k + 1] > 0 and errs[k] > 0 else float("nan")
            for k in range(levels - 1)], errs


# ------------------------------------------------------------------------------------------------
# controller reference (what the property demands, not the formula)
# ------------------------------------------------------------------------------------------------

def scaled_error(x_old, x_new, x_hat, tol):
    """the scaled error of the adaptive drivers: RMS norm of (x_hat - x_new) / (tol + tol*|x_old|)"""
    x_old = np.asarray(x_old, float)
    d = tol + tol * np.abs(x_old)
    e = (np.asarray(x_hat, float) - np.asarray(x_new, float)) / d
    return math.sqrt(float(np.sum(e * e)) / len(x_old))
