"""Environments for the variational-form semantics: generic random jets (pass invariance) and
spline environments on a Gauss grid (compiled assemblers).  numpy (+ ref/bsp) only."""
import numpy as np

from . import bsp
from .vsem import Env, Jet, T


def _sym(h):
    return 0.5 * (h + np.swapaxes(h, -1, -2))


def random_env(prog, seed, npts=3):
    """independent random 2-jets for every leaf; geometry Jacobian well conditioned; space-time forms get a
    cylinder geometry G(x,t) = (G~(x), t)"""
    rng = np.random.RandomState(seed)
    d, gd = prog["dim"], prog.get("geo_dim", prog["dim"])
    B = (npts,)

    def jet(scale=1.0, shift=0.0):
        return Jet(shift + scale * rng.uniform(-1, 1, B), scale * rng.uniform(-1, 1, B + (d,)),
                   scale * _sym(rng.uniform(-1, 1, B + (d, d))))

    # geometry
    J = 0.4 * rng.uniform(-1, 1, B + (gd, d))
    for k in range(d):
        J[..., k, k] += 1.5
    if prog.get("boundary") is not None and np.any(np.linalg.det(J) <= 0):
        raise RuntimeError("harness: orientation")
    H = 0.3 * rng.uniform(-1, 1, B + (gd, d, d))
    H = 0.5 * (H + np.swapaxes(H, -1, -2))
    if prog.get("spacetime"):
        J[..., :, d - 1] = 0.0
        J[..., gd - 1, :] = 0.0
        J[..., gd - 1, d - 1] = 1.0
        H[..., gd - 1, :, :] = 0.0
        H[..., :, d - 1, :] = 0.0
        H[..., :, :, d - 1] = 0.0
    G = [Jet(rng.uniform(0.5, 1.5, B), J[..., c, :], H[..., c, :, :]) for c in range(gd)]
    gw = rng.uniform(0.2, 1.0, B + (d,))
    bf = {"u": jet(), "v": jet()}
    fields = {}
    for name, decl in sorted(prog.get("inputs", {}).items()):
        shape = tuple(decl["shape"])
        arr = np.empty(shape, dtype=object)
        for idx in np.ndindex(shape) if shape else [()]:
            j = jet(0.15) if name in ("f", "g") else jet(0.5)
            if decl.get("physical"):
                j = Jet(j.v, np.full(B + (d,), np.nan), np.full(B + (d, d), np.nan))
            arr[idx] = j
        fields[name] = {"shape": shape, "physical": decl.get("physical", False), "jets": arr}
    params = {}
    for name, shape in sorted(prog.get("params", {}).items()):
        params[name] = rng.uniform(-1, 1, tuple(shape)) if shape else float(rng.uniform(0.5, 1.5))
    bd = prog.get("boundary")
    boundary = None if bd is None else (d - 1 - bd[0], bd[1])
    return Env(d, gd, G, gw, bf, fields, params, boundary, bool(prog.get("spacetime")))


def jac_to_boundary_spec(bd, dim):
    """the constant matrix that restricts the Jacobian to the tangential directions of the face, with the
    sign convention 'normal points outward for det J > 0' (re-derived, not imported): columns are the unit
    vectors of the remaining vform axes, ordered/oriented so that the library's normal construction
    (2D: rotate the tangent by +90 degrees; 3D: t1 x t2) gives the outward direction."""
    kax, side = bd
    ax = dim - 1 - kax            # vform axis normal to the face
    cols = [k for k in range(dim) if k != ax]
    B = np.zeros((dim, dim - 1))
    for c, k in enumerate(cols):
        B[k, c] = 1.0
    if dim == 2:
        # tangent t = e_k; normal = (-t_y, t_x); outward at xi_ax = 1 means +e_ax (for J = I)
        n = np.array([-B[1, 0], B[0, 0]])
        want = np.zeros(2); want[ax] = 1.0 if side == 1 else -1.0
        if n @ want < 0:
            B[:, 0] *= -1
    elif dim == 3:
        n = np.cross(B[:, 0], B[:, 1])
        want = np.zeros(3); want[ax] = 1.0 if side == 1 else -1.0
        if n @ want < 0:
            B[:, 0] *= -1
    return B


# ---------------------------------------------------------------------------------------------------
# spline environments: all (test, trial) pairs at once on the tensor Gauss grid
# ---------------------------------------------------------------------------------------------------

def gauss_axis(breaks, nqp):
    g, w = np.polynomial.legendre.leggauss(nqp)
    pts, wts = [], []
    for a, b in zip(breaks[:-1], breaks[1:]):
        pts.append(a + (g + 1) / 2 * (b - a))
        wts.append(w * (b - a) / 2)
    return np.concatenate(pts), np.concatenate(wts)


def basis_tables(knots, p, pts, maxder=2):
    R = bsp.RefKV(knots, p)
    return [R.colloc(list(pts), der=k) if k <= max(p, 0) or True else None for k in range(maxder + 1)]


def tp_basis_jets(kvs_knots, degs, grids, face=None):
    """Jets of all tensor-product basis functions on the tensor grid.
    kvs_knots/degs/grids are in kvs order (axis 0 first); returned Jet arrays have shape (npts, nfun) with
    derivatives indexed by vform axis (x = last kvs axis = vform axis 0).
    face: None or (kvs_axis, side): keep only the single first/last function of that axis."""
    d = len(degs)
    tabs = [basis_tables(kvs_knots[a], degs[a], grids[a]) for a in range(d)]
    if face is not None:
        a, side = face
        sel = 0 if side == 0 else -1
        tabs[a] = [t[:, [sel]] if sel == 0 else t[:, [t.shape[1] - 1]] for t in tabs[a]]

    def kron(ders):
        M = tabs[0][ders[0]]
        for a in range(1, d):
            M = np.einsum("pi,qj->pqij", M, tabs[a][ders[a]]).reshape(M.shape[0] * tabs[a][0].shape[0], -1)
        return M
    zero = [0] * d
    v = kron(zero)
    g = np.zeros(v.shape + (d,))
    h = np.zeros(v.shape + (d, d))
    for k in range(d):              # vform axis k <-> kvs axis d-1-k
        dk = list(zero); dk[d - 1 - k] += 1
        g[..., k] = kron(dk)
        for l in range(k, d):
            dkl = list(dk); dkl[d - 1 - l] += 1
            h[..., k, l] = h[..., l, k] = kron(dkl)
    return Jet(v, g, h)


def field_jets_from_grid(val, jac, hess, d):
    """pyiga-style grid arrays (value (N.., *shape), jacobian (N.., *shape, d) with x first, hessian packed
    (xx,xy,xz,yy,..)) -> object array of Jets with batch shape (npts,)"""
    val = np.asarray(val)
    N = val.shape[:d]
    shape = val.shape[d:]
    npts = int(np.prod(N))
    out = np.empty(shape, dtype=object)
    pairs = [(i, j) for i in range(d) for j in range(i, d)]
    for idx in (np.ndindex(shape) if shape else [()]):
        v = val[(Ellipsis,) + idx].reshape(npts) if shape else val.reshape(npts)
        if jac is None:
            g = np.full((npts, d), np.nan)
        else:
            g = (jac[(slice(None),) * d + idx] if shape else jac).reshape(npts, d)
        h = np.full((npts, d, d), np.nan)
        if hess is not None:
            hp = (hess[(slice(None),) * d + idx] if shape else hess).reshape(npts, len(pairs))
            for q, (i, j) in enumerate(pairs):
                h[:, i, j] = h[:, j, i] = hp[:, q]
        out[idx] = Jet(v, g, h)
    return out
