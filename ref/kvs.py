"""Shared finite alphabets of knot vectors (shapes) and evaluation points.  numpy only."""
import itertools
import math

import numpy as np

PATTERNS = {
    "U1": [0.0, 1.0],
    "U2": [0.0, 0.5, 1.0],
    "U3": [0.0, 1.0 / 3.0, 2.0 / 3.0, 1.0],
    "U4": [0.0, 0.25, 0.5, 0.75, 1.0],
    "G3": [0.0, 1e-3, 0.5, 1.0],
    "G4": [0.0, 1e-6, 1e-3, 1.0],
    "S3": [-2.5, -1.0, 3.0, 7.0],
}


# extreme patterns (only used where a check asks for them explicitly): a last span of one ulp-scale length, a whole
# domain of length 1e-13, and a first span of 1e-15
EXTREME = {
    "T3": [0.0, 0.5, 1.0 - 2.0 ** -50, 1.0],
    "D3": [0.0, 2.5e-14, 6e-14, 1e-13],
    "H3": [0.0, 1e-15, 0.5, 1.0],
}
PATTERNS_ALL = dict(PATTERNS, **EXTREME)


def breaks_of(name):
    return PATTERNS_ALL[name]


def knots_from(breaks, mults, p):
    kn = [breaks[0]] * (p + 1)
    for b, m in zip(breaks[1:-1], mults):
        kn += [b] * m
    kn += [breaks[-1]] * (p + 1)
    return np.array(kn, dtype=float)


def kv_shapes(p, patterns=None, maxmult=None):
    """all (name, breaks, mults) for degree p: every interior multiplicity vector in {1..max(1,p)}^k"""
    out = []
    mm = max(1, p) if maxmult is None else max(1, min(p, maxmult))
    for name in (patterns or PATTERNS):
        br = PATTERNS_ALL[name]
        k = len(br) - 2
        for mults in itertools.product(range(1, mm + 1), repeat=k):
            out.append((name, br, list(mults)))
    return out


def is_nontrivial(breaks, mults):
    """at least one repeated interior knot and non-uniform spans"""
    spans = np.diff(breaks)
    return any(m > 1 for m in mults) and (spans.max() > 1.0001 * spans.min())


def eval_points(breaks, p, gauss=True):
    """PT(kv): every breakpoint, nextafter on both sides of every breakpoint (inside the domain), span
    midpoints, and the p+1 Gauss nodes of every span.  Sorted, unique."""
    a, b = breaks[0], breaks[-1]
    pts = set()
    for x in breaks:
        pts.add(float(x))
        lo, hi = np.nextafter(x, -np.inf), np.nextafter(x, np.inf)
        if lo >= a:
            pts.add(float(lo))
        if hi <= b:
            pts.add(float(hi))
    for x0, x1 in zip(breaks[:-1], breaks[1:]):
        pts.add(float((x0 + x1) / 2))
        if gauss:
            g, _ = np.polynomial.legendre.leggauss(p + 1)
            for t in g:
                pts.add(float(x0 + (t + 1) / 2 * (x1 - x0)))
    return sorted(x for x in pts if a <= x <= b)
