"""Reference pieces for interpolation / L2 projection checks: Gauss rules, unisolvent node grids, tensor
collocation, weighted mass matrices and closed-form geometry maps.  numpy + ref/bsp.py only (no pyiga)."""
import math

import numpy as np

from . import bsp


# -- memoised exact evaluation of all basis functions of one axis -------------------------------------

class AxisEval:
    """all B-splines of one knot vector as a callable on float arrays -> array shape(pts) + (n,)"""
    def __init__(self, knots, p):
        self.R = bsp.RefKV(knots, p)
        self.n = self.R.n
        self.p = int(p)
        self.a, self.b = float(knots[0]), float(knots[-1])
        self._memo = {}

    def __call__(self, pts):
        pts = np.asarray(pts, dtype=float)
        key = (pts.shape, pts.tobytes())
        v = self._memo.get(key)
        if v is None:
            flat = pts.ravel()
            v = self.R.colloc([float(u) for u in flat]).reshape(pts.shape + (self.n,))
            if len(self._memo) > 64:
                self._memo.clear()
            self._memo[key] = v
        return v

    def breaks(self):
        return [float(x) for x in self.R.breakpoints()]


# -- quadrature -------------------------------------------------------------------------------------------

def gauss(breaks, nq):
    g, w = np.polynomial.legendre.leggauss(nq)
    pts, wts = [], []
    for a, b in zip(breaks[:-1], breaks[1:]):
        pts.append(a + (g + 1.0) / 2.0 * (b - a))
        wts.append(w * (b - a) / 2.0)
    return np.concatenate(pts), np.concatenate(wts)


def kron_all(mats):
    M = mats[0]
    for A in mats[1:]:
        M = np.kron(M, A)
    return M


def outer_all(vecs):
    w = vecs[0]
    for v in vecs[1:]:
        w = np.multiply.outer(w, v)
    return w


# -- node grids ---------------------------------------------------------------------------------------------

def greville_exact(R):
    return np.array([float(g) for g in R.greville()])


def cheb_nodes(R):
    """node i at a Chebyshev-distributed relative position theta_i in (0.2, 0.8) inside supp(B_i)"""
    n, p, kn = R.n, R.p, R.knf
    out = []
    for i in range(n):
        th = 0.5 - 0.3 * math.cos(math.pi * (2 * i + 1) / (2 * n))
        out.append(kn[i] + th * (kn[i + p + 1] - kn[i]))
    return np.array(out)


def skew_nodes(R):
    """node i at the fixed relative position 0.37 of supp(B_i) (not always strictly increasing -> filtered)"""
    n, p, kn = R.n, R.p, R.knf
    return np.array([kn[i] + 0.37 * (kn[i + p + 1] - kn[i]) for i in range(n)])


def schoenberg_whitney(R, nodes):
    """strictly increasing nodes with B_i(node_i) > 0 for every i  <=>  the collocation matrix is invertible"""
    nodes = [float(t) for t in nodes]
    if len(nodes) != R.n or any(b <= a for a, b in zip(nodes, nodes[1:])):
        return False
    if nodes[0] < R.knf[0] or nodes[-1] > R.knf[-1]:
        return False
    C = R.colloc(nodes)
    return bool(all(C[i, i] > 0 for i in range(R.n)))


NODE_SCHEMES = {"greville": greville_exact, "cheb": cheb_nodes, "skew": skew_nodes}


# -- closed-form geometry maps (arguments and results in x, y[, z] order) ---------------------------------

AFF2 = (np.array([[2.0, 0.5], [0.25, 3.0]]), np.array([1.0, -2.0]))
AFF3 = (np.array([[2.0, 0.5, 0.0], [0.25, 3.0, 0.5], [0.0, -0.5, 1.5]]), np.array([1.0, -2.0, 0.5]))
# corner[.., iy, ix] = image point (x, y[, z]) of the corner with those normalised coordinates
BIL2 = np.array([[(0.0, 0.0), (2.0, 0.25)], [(-0.5, 1.0), (3.0, 2.5)]])
TRI3 = np.array([[[(0.0, 0.0, 0.0), (2.0, 0.25, 0.1)], [(-0.5, 1.0, 0.0), (3.0, 2.5, -0.2)]],
                 [[(0.1, -0.1, 1.0), (2.2, 0.0, 1.5)], [(-0.25, 1.5, 1.25), (2.5, 3.0, 2.0)]]])
AFF1 = (3.0, 1.0)
QUAD1 = (0.0, 0.3, 1.5)          # Bernstein coefficients of a monotone quadratic map
R1, R2 = 1.0, 2.0
SMALL = 1e-3          # 'nurbs-small': the same annulus shrunk by this factor (|det J| ~ 1e-6)


def _normalise(xi, extents):
    return [(np.asarray(x, dtype=float) - lo) / (hi - lo) for x, (lo, hi) in zip(xi, extents)]


def geo_map(name, d, extents):
    """closed-form map: callable (xi_x, xi_y[, xi_z]) -> tuple of physical coordinate arrays; `extents` are the
    parameter intervals in x, y[, z] order"""
    if name == "identity":
        return lambda *xi: tuple(np.asarray(x, dtype=float) + 0.0 for x in xi)
    if name == "affine":
        if d == 1:
            return lambda x: (AFF1[0] * np.asarray(x, dtype=float) + AFF1[1],)
        A, t = AFF2 if d == 2 else AFF3
        return lambda *xi: tuple(sum(A[i, j] * np.asarray(xi[j], dtype=float) for j in range(d)) + t[i] for i in range(d))
    if name == "mirror":         # the affine map followed by the reflection x -> -x: negative Jacobian determinant
        if d == 1:
            return lambda x: (-AFF1[0] * np.asarray(x, dtype=float) + AFF1[1],)
        A, t = AFF2 if d == 2 else AFF3
        sg = [-1.0] + [1.0] * (d - 1)
        return lambda *xi: tuple(sg[i] * (sum(A[i, j] * np.asarray(xi[j], dtype=float) for j in range(d)) + t[i]) for i in range(d))
    if name == "quadratic":
        def q(x):
            s, = _normalise((x,), extents)
            return (QUAD1[0] * (1 - s) ** 2 + QUAD1[1] * 2 * s * (1 - s) + QUAD1[2] * s ** 2,)
        return q
    if name == "multilinear":
        C = BIL2 if d == 2 else TRI3
        def ml(*xi):
            s = _normalise(xi, extents)       # s[0] = x-direction
            out = []
            for comp in range(d):
                acc = 0.0
                for idx in np.ndindex(*(2,) * d):      # idx = (.., iy, ix)
                    wgt = 1.0
                    for ax, i in enumerate(idx):
                        sc = s[d - 1 - ax]
                        wgt = wgt * (sc if i else (1 - sc))
                    acc = acc + wgt * C[idx + (comp,)]
                out.append(acc)
            return tuple(out)
        return ml
    if name in ("nurbs", "nurbs-small"):
        w = 1.0 / math.sqrt(2.0)
        r1, r2 = (R1, R2) if name == "nurbs" else (SMALL * R1, SMALL * R2)
        def ann(*xi):
            s = np.asarray(xi[0], dtype=float)
            t = np.asarray(xi[1], dtype=float)
            r = r1 + (r2 - r1) * s
            den = (1 - t) ** 2 + 2 * t * (1 - t) * w + t ** 2
            c = ((1 - t) ** 2 + 2 * t * (1 - t) * w) / den
            sn = (2 * t * (1 - t) * w + t ** 2) / den
            out = (r * c, r * sn)
            if d == 3:
                out = out + (np.asarray(xi[2], dtype=float) + 0.0 * out[0],)
            return out
        return ann
    raise ValueError(name)


def det_degree(name, d):
    """per-axis polynomial degree of det J (None: not a polynomial)"""
    return {"none": 0, "identity": 0, "affine": 0, "mirror": 0, "multilinear": d - 1}.get(name)
