"""Independent denotational semantics of the variational-form language.

Programs are plain nested lists (the *spec AST* of ref/vgen.py).  Values are 2-jets with respect to the
parametric coordinates (forward-mode differentiation written from scratch), so that every derivative
operator of the language -- parametric or physical, first or second order, applied to any expression --
denotes the true derivative of the denoted function.  Physical derivatives use the textbook chain rule
with the geometry jets (value, Jacobian, Hessian); nothing here calls a pyiga transformation.

Axis convention: "vform axes" -- axis 0 is x (the LAST entry of a kvs tuple), axis dim-1 is the first.
numpy only.
"""
import math

import numpy as np


class Jet:
    """scalar 2-jet: v (...,), g (..., d), h (..., d, d); leading axes broadcast (points, test, trial)."""
    __slots__ = ("v", "g", "h")

    def __init__(self, v, g=None, h=None, d=None):
        self.v = np.asarray(v, dtype=float)
        if g is None:
            g = np.zeros(self.v.shape + (d,))
        if h is None:
            h = np.zeros(np.shape(g) + (np.shape(g)[-1],))
        self.g = np.asarray(g, dtype=float)
        self.h = np.asarray(h, dtype=float)

    @property
    def d(self):
        return self.g.shape[-1]


def const(c, d):
    return Jet(np.asarray(float(c)), np.zeros((d,)), np.zeros((d, d)))


def _bc(a, n):
    """append n trailing singleton axes"""
    return a.reshape(a.shape + (1,) * n)


def add(a, b):
    return Jet(a.v + b.v, a.g + b.g, a.h + b.h)


def sub(a, b):
    return Jet(a.v - b.v, a.g - b.g, a.h - b.h)


def neg(a):
    return Jet(-a.v, -a.g, -a.h)


def mul(a, b):
    av, bv = a.v, b.v
    v = av * bv
    g = _bc(av, 1) * b.g + _bc(bv, 1) * a.g
    ag_o = a.g[..., :, None] * b.g[..., None, :]
    h = _bc(av, 2) * b.h + _bc(bv, 2) * a.h + ag_o + np.swapaxes(ag_o, -1, -2)
    return Jet(v, g, h)


def unary(a, f, f1, f2):
    """composition phi(a): phi', phi'' given as functions of the value"""
    x = a.v
    p0, p1, p2 = f(x), f1(x), f2(x)
    g = _bc(p1, 1) * a.g
    h = _bc(p1, 2) * a.h + _bc(p2, 2) * (a.g[..., :, None] * a.g[..., None, :])
    return Jet(p0, g, h)


def recip(a):
    return unary(a, lambda x: 1.0 / x, lambda x: -1.0 / x ** 2, lambda x: 2.0 / x ** 3)


def div(a, b):
    return mul(a, recip(b))


FUNCS = {
    "abs": (np.abs, np.sign, lambda x: np.zeros_like(x)),
    "sqrt": (np.sqrt, lambda x: 0.5 / np.sqrt(x), lambda x: -0.25 * x ** -1.5),
    "exp": (np.exp, np.exp, np.exp),
    "log": (np.log, lambda x: 1.0 / x, lambda x: -1.0 / x ** 2),
    "sin": (np.sin, np.cos, lambda x: -np.sin(x)),
    "cos": (np.cos, lambda x: -np.sin(x), lambda x: -np.cos(x)),
    "tan": (np.tan, lambda x: 1.0 / np.cos(x) ** 2, lambda x: 2.0 * np.tan(x) / np.cos(x) ** 2),
}


def ipow(a, k, d):
    if k < 0:
        return recip(ipow(a, -k, d))
    r = const(1.0, d)
    for _ in range(k):
        r = mul(r, a)
    return r


# ---------------------------------------------------------------------------------------------------
# environment
# ---------------------------------------------------------------------------------------------------

class Env:
    """Everything a form can refer to at a batch of points.

    d: parametric dimension, gd: geometric dimension
    G  : list (gd) of Jets -- components of the geometry map (jets w.r.t. vform parametric axes)
    gw : array (..., d) Gauss weights per vform axis (product = quadrature weight)
    bf : dict name -> Jet for scalar basis functions ('u', 'v')
    fields: dict name -> {'shape', 'physical', 'jets': object array of Jets}  (physical fields: value only)
    params: dict name -> ndarray
    boundary: None or (vform_axis, side): the face of a boundary integral
    """
    def __init__(self, d, gd, G, gw, bf, fields=None, params=None, boundary=None, spacetime=False):
        self.d, self.gd = d, gd
        self.G, self.gw, self.bf = G, gw, bf
        self.fields = fields or {}
        self.params = params or {}
        self.boundary = boundary
        self.spacetime = spacetime
        self._J = None

    def J(self):
        """Jacobian array (..., gd, d)"""
        if self._J is None:
            self._J = np.stack([Gc.g for Gc in self.G], axis=-2)
        return self._J

    def HG(self):
        """(..., gd, d, d)"""
        return np.stack([Gc.h for Gc in self.G], axis=-3)

    def Jinv(self):
        return np.linalg.inv(self.J())


def phys_D(a, k, env):
    """physical partial derivative d/dx_k of the scalar jet a (volume forms, gd == d).
    value:  sum_m Jinv[m,k] a_m ;  its parametric gradient by differentiating that product:
    d_l Jinv = -Jinv (d_l J) Jinv."""
    Ji = env.Jinv()                       # (..., d, d)  Ji[m,k] = d xi_m / d x_k
    HG = env.HG()                         # (..., c, m, l) = d_l d_m G_c
    extra = a.g.ndim - 1 - (Ji.ndim - 2)
    Jb = Ji.reshape(Ji.shape[:-2] + (1,) * extra + Ji.shape[-2:]) if extra > 0 else Ji
    v = np.einsum("...m,...m->...", a.g, Jb[..., :, k])
    # d_l (Ji[m,k]) = - sum_{c,n} Ji[m,c] * HG[c,n,l] * Ji[n,k]
    dJi = -np.einsum("...mc,...cnl,...n->...ml", Ji, HG, Ji[..., :, k])     # (..., m, l)
    dJb = dJi.reshape(dJi.shape[:-2] + (1,) * extra + dJi.shape[-2:]) if extra > 0 else dJi
    g = np.einsum("...ml,...m->...l", dJb, a.g) + np.einsum("...m,...ml->...l", Jb[..., :, k], a.h)
    h = np.full(g.shape + (g.shape[-1],), np.nan)
    return Jet(v, g, h)


def para_D(a, k):
    v = a.g[..., k]
    g = a.h[..., k, :]
    h = np.full(g.shape + (g.shape[-1],), np.nan)
    return Jet(v, g, h)


# ---------------------------------------------------------------------------------------------------
# spec interpreter: nested-list programs -> tensors of Jets
# ---------------------------------------------------------------------------------------------------

def T(x):
    """tensor of jets as object ndarray"""
    a = np.empty(np.shape(x), dtype=object)
    if a.ndim == 0:
        a[()] = x
    else:
        for idx in np.ndindex(a.shape):
            v = x
            for i in idx:
                v = v[i]
            a[idx] = v
    return a


def _map2(f, A, B):
    out = np.empty(A.shape, dtype=object)
    for idx in np.ndindex(A.shape):
        out[idx] = f(A[idx], B[idx])
    return out


def _map1(f, A):
    out = np.empty(A.shape, dtype=object)
    for idx in np.ndindex(A.shape):
        out[idx] = f(A[idx])
    return out


def _sum(js):
    it = iter(js)
    r = next(it)
    for j in it:
        r = add(r, j)
    return r


def _det(A, d):
    n = A.shape[0]
    if n == 1:
        return A[0, 0]
    if n == 2:
        return sub(mul(A[0, 0], A[1, 1]), mul(A[0, 1], A[1, 0]))
    if n == 3:
        # rule of Sarrus (not the cofactor recursion the library uses)
        pos = [(0, 1, 2), (1, 2, 0), (2, 0, 1)]
        negp = [(2, 1, 0), (1, 0, 2), (0, 2, 1)]
        r = const(0.0, d)
        for p in pos:
            r = add(r, mul(mul(A[0, p[0]], A[1, p[1]]), A[2, p[2]]))
        for p in negp:
            r = sub(r, mul(mul(A[0, p[0]], A[1, p[1]]), A[2, p[2]]))
        return r
    raise ValueError("det of size %d" % n)


def _inv(A, d):
    n = A.shape[0]
    det = _det(A, d)
    out = np.empty((n, n), dtype=object)
    if n == 1:
        out[0, 0] = recip(det)
        return out
    # adjugate via explicit formulas (2x2) / cross products of rows (3x3)
    if n == 2:
        out[0, 0], out[0, 1] = div(A[1, 1], det), div(neg(A[0, 1]), det)
        out[1, 0], out[1, 1] = div(neg(A[1, 0]), det), div(A[0, 0], det)
        return out
    rows = [[A[i, j] for j in range(3)] for i in range(3)]

    def crs(a, b):
        return [sub(mul(a[1], b[2]), mul(a[2], b[1])), sub(mul(a[2], b[0]), mul(a[0], b[2])), sub(mul(a[0], b[1]), mul(a[1], b[0]))]
    cols = [crs(rows[1], rows[2]), crs(rows[2], rows[0]), crs(rows[0], rows[1])]     # columns of adj(A)
    for j in range(3):
        for i in range(3):
            out[i, j] = div(cols[j][i], det)
    return out


class Spec:
    """evaluates spec ASTs in an Env; `prog` supplies declarations (bfuns, inputs, params, spacetime)."""
    def __init__(self, prog, env, comp=None):
        self.p = prog
        self.env = env
        self.comp = comp or {}       # for vector basis functions: name -> active component index
        self.d = env.d
        self.lets = {}

    # -- leaves ------------------------------------------------------------------------------------
    def bfun(self, name):
        nc = self.p["bfuns"][name][0]
        jet = self.env.bf[name]
        if nc is None or nc == 1:
            return T(jet)
        k = self.comp[name]
        return T([jet if i == k else const(0.0, self.d) for i in range(nc)])

    def spacedims(self):
        return list(range(self.d - 1)) if self.p.get("spacetime") else list(range(self.d))

    def normal(self):
        """outward unit normal.  Surface integrals (gd = d+1): from the tangents; boundary integrals:
        the tangents of the face with the orientation that points out of the patch (det J > 0)."""
        env = self.env
        J = env.J()
        if env.boundary is None:
            if env.gd == 2 and env.d == 1:
                t = J[..., :, 0]
                n = np.stack([-t[..., 1], t[..., 0]], axis=-1)
            else:
                n = np.cross(J[..., :, 0], J[..., :, 1])
        else:
            ax, side = env.boundary
            d = env.d
            # outward normal of the image of the face xi_ax = const: n ~ +- J^{-T} e_ax
            Ji = np.linalg.inv(J)
            n = Ji[..., ax, :] * (1.0 if side == 1 else -1.0)
        n = n / np.linalg.norm(n, axis=-1, keepdims=True)
        return T([Jet(n[..., c], d=self.d) for c in range(env.gd)])

    def measure(self, kind):
        env = self.env
        w = np.prod(env.gw, axis=-1)
        J = env.J()
        if kind == "dx":
            if env.boundary is not None or env.gd != env.d:
                raise ValueError("dx on a surface/boundary form")
            return T(Jet(w * np.abs(np.linalg.det(J)), d=self.d))
        # surface measure
        if env.boundary is None:
            if env.gd != env.d + 1:
                raise ValueError("ds on a volume form")
            if env.d == 1:
                s = np.linalg.norm(J[..., :, 0], axis=-1)
            else:
                s = np.linalg.norm(np.cross(J[..., :, 0], J[..., :, 1]), axis=-1)
        else:
            ax, side = env.boundary
            tang = [J[..., :, k] for k in range(env.d) if k != ax]
            if env.d == 2:
                s = np.linalg.norm(tang[0], axis=-1)
            elif env.d == 3:
                s = np.linalg.norm(np.cross(tang[0], tang[1]), axis=-1)
            else:
                s = np.ones_like(w)
        return T(Jet(w * s, d=self.d))

    # -- derivative operators ------------------------------------------------------------------------
    def D(self, A, k, parametric):
        if parametric:
            return _map1(lambda a: para_D(a, k), A)
        if self.env.gd != self.env.d:
            raise ValueError("physical derivative on a surface form")
        return _map1(lambda a: phys_D(a, k, self.env), A)

    def grad(self, A, parametric, dims=None):
        dims = self.spacedims() if dims is None else dims
        if A.ndim == 0:
            return T([self.D(A, k, parametric)[()] for k in dims])
        if A.ndim == 1:
            return T([[self.D(T(A[i]), k, parametric)[()] for k in dims] for i in range(A.shape[0])])
        raise ValueError("grad of a matrix")

    # -- evaluation ----------------------------------------------------------------------------------
    def ev(self, e):
        d = self.d
        op = e[0]
        if op == "const":
            return T(const(e[1], d))
        if op == "u" or op == "v":
            return self.bfun(op)
        if op == "param":
            val = np.asarray(self.env.params[e[1]], dtype=float)
            return _map1(lambda c: const(c, d), val.astype(object)) if val.ndim else T(const(val, d))
        if op == "field":
            return self.env.fields[e[1]]["jets"]
        if op == "x":
            return T(list(self.env.G))
        if op == "jac":
            J = self.env.J()
            HG = self.env.HG()
            return T([[Jet(J[..., c, k], HG[..., c, k, :]) for k in range(d)] for c in range(self.env.gd)])
        if op == "gw":
            return T(Jet(np.prod(self.env.gw, axis=-1), d=d))
        if op == "n":
            return self.normal()
        if op == "dxm":
            return self.measure("dx")
        if op == "dsm":
            return self.measure("ds")
        if op == "let":
            return self.lets[e[1]]
        if op == "comp":
            idx = e[2]
            return self._index(self.ev(e[1]), idx if isinstance(idx, (list, tuple)) else [idx])
        if op == "dx":
            A = self.ev(e[1])
            for _ in range(e[3]):
                A = self.D(A, e[2], e[4])
            return A
        if op == "dt":
            A = self.ev(e[1])
            for _ in range(e[2]):
                A = self.D(A, d - 1, False)
            return A
        if op == "grad":
            return self.grad(self.ev(e[1]), e[2])
        if op == "hess":
            A = self.ev(e[1])
            g = self.grad(A, e[2])
            return self.grad(g, e[2])
        if op == "diverg":
            G = self.grad(self.ev(e[1]), e[2])
            return T(_sum(G[i, i] for i in range(G.shape[0])))
        if op == "curl":
            A = self.ev(e[1])
            Dk = lambda i, k: self.D(T(A[i]), k, False)[()]
            return T([sub(Dk(2, 1), Dk(1, 2)), sub(Dk(0, 2), Dk(2, 0)), sub(Dk(1, 0), Dk(0, 1))])
        if op == "neg":
            return _map1(neg, self.ev(e[1]))
        if op in ("add", "sub", "mul", "div"):
            A, B = self.ev(e[1]), self.ev(e[2])
            f = {"add": add, "sub": sub, "mul": mul, "div": div}[op]
            if A.ndim == 0 and B.ndim > 0:
                return _map1(lambda b: f(A[()], b), B)
            if B.ndim == 0 and A.ndim > 0:
                return _map1(lambda a: f(a, B[()]), A)
            return _map2(f, A, B)
        if op == "pow":
            return T(ipow(self.ev(e[1])[()], e[2], d))
        if op == "fn":
            f, f1, f2 = FUNCS[e[1]]
            return T(unary(self.ev(e[2])[()], f, f1, f2))
        if op == "inner":
            A, B = self.ev(e[1]), self.ev(e[2])
            return T(_sum(mul(A[idx], B[idx]) for idx in np.ndindex(A.shape)))
        if op == "dot":
            A, B = self.ev(e[1]), self.ev(e[2])
            if A.ndim == 1 and B.ndim == 1:
                return T(_sum(mul(A[i], B[i]) for i in range(A.shape[0])))
            if A.ndim == 2 and B.ndim == 1:
                return T([_sum(mul(A[i, j], B[j]) for j in range(B.shape[0])) for i in range(A.shape[0])])
            return T([[_sum(mul(A[i, k], B[k, j]) for k in range(A.shape[1])) for j in range(B.shape[1])] for i in range(A.shape[0])])
        if op == "cross":
            a, b = self.ev(e[1]), self.ev(e[2])
            return T([sub(mul(a[1], b[2]), mul(a[2], b[1])), sub(mul(a[2], b[0]), mul(a[0], b[2])), sub(mul(a[0], b[1]), mul(a[1], b[0]))])
        if op == "outer":
            a, b = self.ev(e[1]), self.ev(e[2])
            return T([[mul(a[i], b[j]) for j in range(b.shape[0])] for i in range(a.shape[0])])
        if op == "det":
            return T(_det(self.ev(e[1]), d))
        if op == "inv":
            return _inv(self.ev(e[1]), d)
        if op == "tr":
            A = self.ev(e[1])
            return T(_sum(A[i, i] for i in range(A.shape[0])))
        if op == "T":
            return self.ev(e[1]).T.copy()
        if op == "norm":
            a = self.ev(e[1])
            f, f1, f2 = FUNCS["sqrt"]
            return T(unary(_sum(mul(a[i], a[i]) for i in range(a.shape[0])), f, f1, f2))
        if op == "vec":
            return T([self.ev(c)[()] for c in e[1:]])
        if op == "mat":
            return T([[self.ev(c)[()] for c in row] for row in e[1]])
        raise ValueError("unknown spec node %r" % (op,))

    def _index(self, A, idx):
        """idx: list of per-axis entries, each int or ['slice', start, stop, step] or list of ints"""
        key = []
        for i in idx:
            if isinstance(i, int):
                key.append(i)
            elif isinstance(i, list) and i and i[0] == "slice":
                key.append(slice(i[1], i[2], i[3]))
            else:
                key.append(list(i))
        r = A[tuple(key)]
        return r if isinstance(r, np.ndarray) else T(r)

    def value(self, e):
        """plain array of values (shape: batch + tensor shape)"""
        A = self.ev(e)
        if A.ndim == 0:
            return A[()].v
        vals = [np.asarray(A[idx].v) for idx in np.ndindex(A.shape)]
        shp = np.broadcast_shapes(*[v.shape for v in vals])
        return np.stack([np.broadcast_to(v, shp) for v in vals], axis=-1).reshape(shp + A.shape)


def denote_terms(prog, env):
    """sum of all added terms; for vector-valued forms an array (..., nv, nu) resp. (..., nv) of the terms with
    the test function = phi*e_i and the trial function = phi*e_j"""
    bf = prog["bfuns"]
    vec = any(nc is not None for nc, _ in bf.values())

    def total(comp):
        S = Spec(prog, env, comp)
        for name, e, _sym in prog.get("lets", []):
            S.lets[name] = S.ev(e)
        tot = None
        for t in prog["terms"]:
            v = S.value(t)
            tot = v if tot is None else tot + v
        return tot

    def stack(vals, axis):
        vals = [np.asarray(v, dtype=float) for v in vals]
        shp = np.broadcast_shapes(*[v.shape for v in vals])
        return np.stack([np.broadcast_to(v, shp) for v in vals], axis=axis)

    if not vec:
        return total({})
    if prog["arity"] == 1:
        name = next(iter(bf))
        nc = bf[name][0]
        return stack([total({name: i}) for i in range(nc)], -1)
    nu, nv = bf["u"][0] or 1, bf["v"][0] or 1
    rows = []
    for i in range(nv):
        rows.append(stack([total({"u": j, "v": i}) for j in range(nu)], -1))
    return stack(rows, -2)
