"""Reference tensor-product spline / NURBS evaluation built on the exact univariate collocation matrices of
ref/bsp.py (Cox-de Boor in Fractions).  Boring on purpose: dense matrices, one axis after the other.

Axis convention: `knots[a]`, `degs[a]`, `axes[a]`, `ders[a]` all refer to the a-th *parameter axis of the
coefficient array* (the order of the `kvs` tuple).  The library calls the LAST axis "x", so the x-first
derivative orderings are produced by `jac_ders` / `hess_ders`.

NURBS: f = N / W with N the spline of the weighted coefficients and W the weight spline; first and second
derivatives from  N = f W  =>  N_a = f_a W + f W_a,  N_ab = f_ab W + f_a W_b + f_b W_a + f W_ab.
Independent of pyiga (numpy, fractions through ref.bsp).
"""
import numpy as np

from ref import bsp


class TPSpace:
    def __init__(self, knots, degs):
        self.R = [bsp.RefKV([float(k) for k in kn], int(p)) for kn, p in zip(knots, degs)]
        self.d = len(self.R)
        self.N = tuple(R.n for R in self.R)
        self.support = tuple((R.knf[0], R.knf[-1]) for R in self.R)
        self._rows = [dict() for _ in self.R]

    def _row(self, a, u, maxder=2):
        """rows (maxder+1, n_a) of all derivatives up to maxder of all basis functions of axis a at u"""
        key = float(u)
        r = self._rows[a].get(key)
        if r is None:
            R = self.R[a]
            s, ders = R.deriv_all(key, maxder)
            r = np.zeros((maxder + 1, R.n))
            for k, dk in enumerate(ders):
                for i, v in dk.items():
                    r[k, i] = float(v)
            self._rows[a][key] = r
        return r

    def colloc(self, a, pts, der):
        return np.array([self._row(a, u)[der] for u in pts]).reshape(len(pts), self.N[a])

    def grid(self, coeffs, axes, ders=None):
        """D^ders f on the tensor grid axes[0] x ... x axes[d-1]; coeffs has shape N + out; result has
        shape (len(axes[0]), ..., len(axes[d-1])) + out"""
        A = np.asarray(coeffs, dtype=float)
        ders = ders or (0,) * self.d
        for a in range(self.d):
            M = self.colloc(a, axes[a], ders[a])
            A = np.moveaxis(np.tensordot(M, A, axes=([1], [a])), 0, a)
        return A

    def scattered(self, coeffs, P, ders=None):
        """D^ders f at n scattered points; P[a] = 1D sequence of the coordinates along axis a; -> (n,) + out"""
        C = np.asarray(coeffs, dtype=float)
        ders = ders or (0,) * self.d
        n = len(P[0])
        out = np.empty((n,) + C.shape[self.d:])
        for k in range(n):
            A = C
            for a in range(self.d):
                A = np.tensordot(self._row(a, P[a][k])[ders[a]], A, axes=([0], [0]))
            out[k] = A
        return out


def jac_ders(d):
    """derivative-order tuples of the Jacobian columns in the library's order (x, y[, z]) = axes d-1, d-2, ..."""
    return [tuple(1 if a == d - 1 - c else 0 for a in range(d)) for c in range(d)]


def hess_ders(d):
    """(xx, xy, yy) / (xx, xy, xz, yy, yz, zz)"""
    out = []
    for c1 in range(d):
        for c2 in range(c1, d):
            t = [0] * d
            t[d - 1 - c1] += 1
            t[d - 1 - c2] += 1
            out.append(tuple(t))
    return out


def hess_pairs(d):
    return [(c1, c2) for c1 in range(d) for c2 in range(c1, d)]


class SplineRef:
    """value / Jacobian / Hessian of a spline (weights None) or NURBS (weights given; coefficients are the
    control points, or the weighted control points if premultiplied) through an evaluator ev(ders) -> array (points...) + out of the coefficient spline"""

    def __init__(self, space, coeffs, weights=None, premultiplied=False):
        self.sp = space
        self.d = space.d
        C = np.asarray(coeffs, dtype=float)
        self.oshape = C.shape[self.d:]
        if weights is None:
            self.num, self.w = C, None
        else:
            W = np.asarray(weights, dtype=float)
            assert W.shape == space.N
            self.num = C if premultiplied else C * W.reshape(W.shape + (1,) * len(self.oshape))
            self.w = W

    # -- generic (ev_n, ev_w are callables ders -> array) -----------------------------------------
    def _vjh(self, ev_n, ev_w, want):
        d = self.d
        ex = (None,) * len(self.oshape)

        def lift(a):                     # weight-type array -> broadcastable against numerator-type arrays
            return a[(Ellipsis,) + ex]

        zero = (0,) * d
        N = ev_n(zero)
        if self.w is None:
            res = {"val": N}
            if want >= 1:
                res["jac"] = np.stack([ev_n(t) for t in jac_ders(d)], axis=-1)
            if want >= 2:
                res["hess"] = np.stack([ev_n(t) for t in hess_ders(d)], axis=-1)
            return res
        W = lift(ev_w(zero))
        f = N / W
        res = {"val": f}
        if want >= 1:
            fa, Wa = [], []
            for t in jac_ders(d):
                wa = lift(ev_w(t))
                Wa.append(wa)
                fa.append((ev_n(t) - f * wa) / W)
            res["jac"] = np.stack(fa, axis=-1)
        if want >= 2:
            hs = []
            for (c1, c2), t in zip(hess_pairs(d), hess_ders(d)):
                hs.append((ev_n(t) - fa[c1] * Wa[c2] - fa[c2] * Wa[c1] - f * lift(ev_w(t))) / W)
            res["hess"] = np.stack(hs, axis=-1)
        return res

    def on_grid(self, axes, want=2):
        return self._vjh(lambda t: self.sp.grid(self.num, axes, t),
                         (lambda t: self.sp.grid(self.w, axes, t)) if self.w is not None else None, want)

    def at_points(self, P, want=1):
        return self._vjh(lambda t: self.sp.scattered(self.num, P, t),
                         (lambda t: self.sp.scattered(self.w, P, t)) if self.w is not None else None, want)


def selftest():
    """finite-difference cross-check of the derivative formulas (oracle self-test); returns max relative error"""
    sp = TPSpace([[0, 0, 0, 0.5, 0.5, 1, 1, 1], [0, 0, 0, 0, 1, 2, 2, 2, 2]], [2, 3])
    n0, n1 = sp.N
    C = np.fromfunction(lambda i, j, c: np.sin(1.0 + i + 2 * j + 3 * c), (n0, n1, 2))
    W = np.fromfunction(lambda i, j: 1.0 + 0.3 * ((i + 2 * j) % 3), (n0, n1))
    worst = 0.0
    for w in (None, W):
        f = SplineRef(sp, C, w)
        y, x, h = 0.3, 1.3, 1e-4
        r = f.on_grid(([y], [x]))
        J, H = r["jac"][0, 0], r["hess"][0, 0]

        def v(dx, dy):
            return f.on_grid(([y + dy], [x + dx]), want=0)["val"][0, 0]
        Jn = np.stack([(v(h, 0) - v(-h, 0)) / (2 * h), (v(0, h) - v(0, -h)) / (2 * h)], axis=-1)
        Hn = np.stack([(v(h, 0) - 2 * v(0, 0) + v(-h, 0)) / h ** 2,
                       (v(h, h) - v(h, -h) - v(-h, h) + v(-h, -h)) / (4 * h ** 2),
                       (v(0, h) - 2 * v(0, 0) + v(0, -h)) / h ** 2], axis=-1)
        worst = max(worst, np.abs(J - Jn).max() / np.abs(J).max(), np.abs(H - Hn).max() / np.abs(H).max())
        # scattered == grid
        g = f.on_grid(([0.1, 0.5], [0.0, 1.0, 2.0]), want=1)
        P = ([0.1, 0.1, 0.1, 0.5, 0.5, 0.5], [0.0, 1.0, 2.0] * 2)
        s = f.at_points(P, want=1)
        worst = max(worst, np.abs(g["val"].reshape(6, -1) - s["val"].reshape(6, -1)).max(),
                    np.abs(g["jac"].reshape(6, -1) - s["jac"].reshape(6, -1)).max())
    return worst
