"""Exact Galerkin integrals of piecewise polynomials (fractions.Fraction), independent of pyiga.

1D: a product  x^k * N_i^(dv)(x) * M_j^(du)(x)  of B-spline derivatives over two knot vectors is a
polynomial of known degree on every span of the merged mesh; it is integrated exactly by an *open
Newton-Cotes rule with rational nodes and rational weights* that is exact for that degree (the nodes are
interior to the span, so the one-sided conventions at knots never matter).  Basis values come from the
exact Cox-de Boor recursion of ref/bsp.py.

d-D: polynomial geometry maps and polynomial data are multivariate polynomials with Fraction
coefficients (dict exponent-tuple -> Fraction); a tensor-product integral with a polynomial coefficient
c(xi) = sum_a c_a xi^a is the sum over a of c_a times Kronecker products of exact 1D weighted matrices /
moment vectors.
"""
from fractions import Fraction
from functools import lru_cache
from itertools import product

import numpy as np

from ref import bsp


def F(x):
    return x if isinstance(x, Fraction) else Fraction(x)


# -------------------------------------------------------------------------------------------------
# exact quadrature on (0,1): open Newton-Cotes, exact for degree <= m
# -------------------------------------------------------------------------------------------------

def solve_exact(A, b):
    """Gaussian elimination in Fractions; A list of rows (square, regular), b list"""
    n = len(A)
    M = [list(map(F, A[i])) + [F(b[i])] for i in range(n)]
    for c in range(n):
        piv = next(r for r in range(c, n) if M[r][c] != 0)
        M[c], M[piv] = M[piv], M[c]
        inv = 1 / M[c][c]
        M[c] = [v * inv for v in M[c]]
        for r in range(n):
            if r != c and M[r][c] != 0:
                f = M[r][c]
                M[r] = [a - f * bb for a, bb in zip(M[r], M[c])]
    return [M[i][n] for i in range(n)]


@lru_cache(maxsize=None)
def open_rule(m):
    """(nodes, weights) on (0,1), m+1 equispaced interior rational nodes, exact for polynomials of degree <= m"""
    n = m + 1
    nodes = [Fraction(k + 1, n + 1) for k in range(n)]
    A = [[t ** j for t in nodes] for j in range(n)]
    b = [Fraction(1, j + 1) for j in range(n)]
    return tuple(nodes), tuple(solve_exact(A, b))


def rank_exact(A):
    """exact rank of a matrix of Fractions"""
    M = [list(map(F, row)) for row in A]
    rk = 0
    rows = len(M)
    cols = len(M[0]) if rows else 0
    for c in range(cols):
        piv = next((r for r in range(rk, rows) if M[r][c] != 0), None)
        if piv is None:
            continue
        M[rk], M[piv] = M[piv], M[rk]
        for r in range(rk + 1, rows):
            if M[r][c] != 0:
                f = M[r][c] / M[rk][c]
                M[r] = [a - f * b for a, b in zip(M[r], M[rk])]
        rk += 1
        if rk == rows:
            break
    return rk


# -------------------------------------------------------------------------------------------------
# 1D piecewise-polynomial integrator
# -------------------------------------------------------------------------------------------------

def merged_breaks(*seqs):
    s = set()
    for q in seqs:
        for x in q:
            s.add(F(float(x)) if not isinstance(x, Fraction) else x)
    return sorted(s)


class PPInt:
    """exact integrals over [breaks[0], breaks[-1]] of functions that are polynomials of degree <= m on
    every span of `breaks` (which must contain the breakpoints of every knot vector used)"""

    def __init__(self, breaks, m):
        self.breaks = [F(b) for b in breaks]
        self.m = int(m)
        t, w = open_rule(self.m)
        self.x, self.w = [], []
        for a, b in zip(self.breaks[:-1], self.breaks[1:]):
            h = b - a
            for tk, wk in zip(t, w):
                self.x.append(a + h * tk)
                self.w.append(h * wk)
        self._vals = {}
        self._xpow = {0: [Fraction(1)] * len(self.x)}

    def xpow(self, k):
        if k not in self._xpow:
            self._xpow[k] = [x ** k for x in self.x]
        return self._xpow[k]

    def values(self, R, maxder):
        """list over derivative order 0..maxder of list over nodes of dict i -> exact value"""
        key = id(R)
        got = self._vals.get(key)
        if got is None or len(got[1]) <= maxder:
            per = [R.deriv_all(x, maxder)[1] for x in self.x]       # per node: list over k of dict
            got = (R, [[per[q][k] for q in range(len(self.x))] for k in range(maxder + 1)])
            self._vals[key] = got
        return got[1]

    def biform(self, Rtrial, du, Rtest, dv, wpow=0):
        """matrix (n_test x n_trial) of  int x^wpow * Ntest_i^(dv) * Ntrial_j^(du)  (lists of Fractions)"""
        deg = max(Rtrial.p - du, 0) + max(Rtest.p - dv, 0) + wpow
        if deg > self.m:
            raise ValueError("rule of degree %d cannot integrate degree %d" % (self.m, deg))
        A = [[Fraction(0)] * Rtrial.n for _ in range(Rtest.n)]
        if du > Rtrial.p or dv > Rtest.p:
            return A
        Vu = self.values(Rtrial, du)[du]
        Vv = self.values(Rtest, dv)[dv]
        xp = self.xpow(wpow)
        for q in range(len(self.x)):
            wq = self.w[q] * xp[q]
            if wq == 0:
                continue
            for i, vi in Vv[q].items():
                wv = wq * vi
                row = A[i]
                for j, uj in Vu[q].items():
                    row[j] += wv * uj
        return A

    def moments(self, R, wpow=0):
        """vector of  int x^wpow * N_i  (list of Fractions)"""
        if R.p + wpow > self.m:
            raise ValueError("rule of degree %d cannot integrate degree %d" % (self.m, R.p + wpow))
        V = self.values(R, 0)[0]
        xp = self.xpow(wpow)
        out = [Fraction(0)] * R.n
        for q in range(len(self.x)):
            wq = self.w[q] * xp[q]
            for i, vi in V[q].items():
                out[i] += wq * vi
        return out


def fl(A):
    """Fractions (vector / matrix / nested lists) -> float ndarray"""
    if A and isinstance(A[0], (list, tuple)):
        return np.array([[float(x) for x in row] for row in A], dtype=float).reshape(len(A), -1)
    return np.array([float(x) for x in A], dtype=float)


# -------------------------------------------------------------------------------------------------
# multivariate polynomials with Fraction coefficients: dict {exponent tuple: Fraction}
# -------------------------------------------------------------------------------------------------

def pconst(c, nv):
    c = F(c)
    return {(0,) * nv: c} if c else {}


def pvar(k, nv):
    e = [0] * nv
    e[k] = 1
    return {tuple(e): Fraction(1)}


def padd(p, q, s=1):
    r = dict(p)
    for e, c in q.items():
        v = r.get(e, 0) + s * c
        if v:
            r[e] = v
        else:
            r.pop(e, None)
    return r


def pscale(p, c):
    c = F(c)
    return {e: v * c for e, v in p.items()} if c else {}


def pmul(p, q):
    r = {}
    for e1, c1 in p.items():
        for e2, c2 in q.items():
            e = tuple(a + b for a, b in zip(e1, e2))
            v = r.get(e, 0) + c1 * c2
            if v:
                r[e] = v
            else:
                r.pop(e, None)
    return r


def ppow(p, k, nv):
    r = pconst(1, nv)
    for _ in range(k):
        r = pmul(r, p)
    return r


def pderiv(p, k):
    r = {}
    for e, c in p.items():
        if e[k]:
            e2 = list(e)
            e2[k] -= 1
            r[tuple(e2)] = c * e[k]
    return r


def peval(p, x):
    s = Fraction(0)
    for e, c in p.items():
        t = c
        for xe, ee in zip(x, e):
            if ee:
                t *= F(xe) ** ee
        s += t
    return s


def pdeg(p, k):
    return max((e[k] for e in p), default=0)


def pdet(J):
    n = len(J)
    if n == 1:
        return J[0][0]
    if n == 2:
        return padd(pmul(J[0][0], J[1][1]), pmul(J[0][1], J[1][0]), -1)
    r = {}
    for c in range(n):
        minor = [[J[i][j] for j in range(n) if j != c] for i in range(1, n)]
        r = padd(r, pmul(J[0][c], pdet(minor)), 1 if c % 2 == 0 else -1)
    return r


def pintegrate_box(p, box):
    """exact integral of the polynomial over the box [(a0,b0),...]"""
    s = Fraction(0)
    for e, c in p.items():
        t = c
        for (a, b), k in zip(box, e):
            a, b = F(a), F(b)
            t *= (b ** (k + 1) - a ** (k + 1)) / (k + 1)
        s += t
    return s


# -------------------------------------------------------------------------------------------------
# multilinear geometry maps (parameter variables are indexed by knot-vector AXIS: axis d-1 is 'x')
# -------------------------------------------------------------------------------------------------

class MultilinearMap:
    """G(xi) = sum over corners J in {0,1}^d of corner[J] * prod_k l_{J_k}(xi_k) on the box
    [(a_0,b_0),...]; corner[J] is the physical point (x, y[, z]) and J is indexed by knot-vector axis.
    Components are polynomials in the axis variables."""

    def __init__(self, box, corners):
        self.box = [(F(a), F(b)) for a, b in box]
        self.d = d = len(box)
        self.corners = {tuple(J): tuple(F(c) for c in P) for J, P in corners.items()}
        assert len(self.corners) == 2 ** d
        self.ncomp = len(next(iter(self.corners.values())))
        lin = []
        for k, (a, b) in enumerate(self.box):
            x = pvar(k, d)
            l1 = pscale(padd(x, pconst(a, d), -1), 1 / (b - a))
            l0 = padd(pconst(1, d), l1, -1)
            lin.append((l0, l1))
        self.comp = []
        for c in range(self.ncomp):
            g = {}
            for J, P in self.corners.items():
                t = pconst(P[c], d)
                for k in range(d):
                    t = pmul(t, lin[k][J[k]])
                g = padd(g, t)
            self.comp.append(g)

    def jacobian(self):
        """J[i][c] = d G_i / d (parameter of x-order c) = derivative w.r.t. axis d-1-c (columns x,y,z)"""
        d = self.d
        return [[pderiv(self.comp[i], d - 1 - c) for c in range(d)] for i in range(self.ncomp)]

    def det(self):
        return pdet(self.jacobian())

    def det_sign(self):
        """sign of det J on the closed box if it does not change (checked on the corners and on a 5^d grid,
        exact arithmetic); None if it vanishes or changes sign there"""
        D = self.det()
        signs = set()
        axes = [[a + (b - a) * Fraction(k, 4) for k in range(5)] for a, b in self.box]
        for x in product(*axes):
            v = peval(D, x)
            signs.add((v > 0) - (v < 0))
        if signs == {1}:
            return 1
        if signs == {-1}:
            return -1
        return None

    def measure(self):
        s = self.det_sign()
        assert s is not None
        return s * pintegrate_box(self.det(), self.box)

    def compose(self, f):
        """f: polynomial in the physical variables (x, y[, z]) -> polynomial in the axis variables"""
        d = self.d
        r = {}
        for e, c in f.items():
            t = pconst(c, d)
            for i, k in enumerate(e):
                if k:
                    t = pmul(t, ppow(self.comp[i], k, d))
            r = padd(r, t)
        return r

    def coeff_array(self):
        """control points of the degree-1 tensor-product representation, shape (2,)*d + (ncomp,)"""
        C = np.zeros((2,) * self.d + (self.ncomp,))
        for J, P in self.corners.items():
            C[J] = [float(v) for v in P]
        return C


def kron_exact(A, B):
    """Kronecker product of two vectors (lists) or two matrices (lists of rows) of Fractions"""
    if A and isinstance(A[0], (list, tuple)):
        return [[a * b for a in ra for b in rb] for ra in A for rb in B]
    return [a * b for a in A for b in B]


def tensor_contract(poly, factor_for):
    """exact  sum over the monomials  c * prod_k xi_k^{e_k}  of  c * kron_k factor_for(k, e_k);  the factors are
    vectors or matrices of Fractions and are combined in knot-vector axis order (axis 0 slowest)"""
    total = None
    for e, c in sorted(poly.items()):
        t = None
        for k, ek in enumerate(e):
            f = factor_for(k, ek)
            t = f if t is None else kron_exact(t, f)
        if t and isinstance(t[0], (list, tuple)):
            t = [[c * v for v in row] for row in t]
            total = t if total is None else [[a + b for a, b in zip(ra, rb)] for ra, rb in zip(total, t)]
        else:
            t = [c * v for v in t]
            total = t if total is None else [a + b for a, b in zip(total, t)]
    return total
