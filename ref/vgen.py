"""Program generator for the variational-form language: spec ASTs (nested lists), their translation to the
library's public front end, and finite, deterministic program families (simplest first).

A program is a dict:
  dim, geo_dim, boundary (None | [kvs_axis, side]), arity, spacetime,
  bfuns  {"u": [ncomp|None, space], "v": [...]}        (arity 1: only "v")
  inputs {name: {"shape": [...], "physical": bool, "updatable": bool}}
  params {name: [shape]}
  lets   [[name, expr, symmetric], ...]
  terms  [expr, ...]                                     each one is added with VForm.add
Only `build_vform` touches pyiga (lazily); the rest is plain data.
"""
import itertools

FN_NAMES = ("abs", "sqrt", "exp", "log", "sin", "cos", "tan")


# ---------------------------------------------------------------------------------------------------
# spec -> pyiga
# ---------------------------------------------------------------------------------------------------

def build_vform(prog, after_term=None):
    """after_term(vf, index): called after every vf.add (used to interleave other API calls with the construction)"""
    from pyiga import vform as V
    d = prog["dim"]
    vf = V.VForm(d, geo_dim=prog.get("geo_dim", d), boundary=bool(prog.get("boundary")), arity=prog["arity"],
                 spacetime=bool(prog.get("spacetime")))
    bf = prog["bfuns"]
    if prog["arity"] == 2:
        comps = (bf["u"][0], bf["v"][0])
        spaces = (bf["u"][1], bf["v"][1])
        u, v = vf.basisfuns(components=comps, spaces=spaces)
        names = {"u": u, "v": v}
    else:
        v = vf.basisfuns(components=(bf["v"][0], None), spaces=(bf["v"][1], 0))
        names = {"v": v}
    for name, decl in prog.get("inputs", {}).items():
        names["field:" + name] = vf.input(name, shape=tuple(decl["shape"]), physical=decl.get("physical", False),
                                          updatable=decl.get("updatable", False))
    for name, shape in prog.get("params", {}).items():
        names["param:" + name] = vf.parameter(name, shape=tuple(shape))

    def key(i):
        if isinstance(i, int):
            return i
        if isinstance(i, list) and i and i[0] == "slice":
            return slice(i[1], i[2], i[3])
        return tuple(i)

    def b(e):
        op = e[0]
        if op == "const":
            return V.as_expr(e[1])
        if op in ("u", "v"):
            return names[op]
        if op == "param":
            return names["param:" + e[1]]
        if op == "field":
            return names["field:" + e[1]]
        if op == "x":
            return vf.Geo
        if op == "jac":
            return vf.Jac
        if op == "gw":
            return vf.GaussWeight
        if op == "n":
            return vf.normal
        if op == "dxm":
            return V.dx
        if op == "dsm":
            return V.ds
        if op == "let":
            return names["let:" + e[1]]
        if op == "comp":
            idx = e[2]
            A = b(e[1])
            if isinstance(idx, (list, tuple)):
                k = tuple(key(i) for i in idx)
                return A[k[0]] if len(k) == 1 else A[k]
            return A[idx]
        if op == "dx":
            return V.Dx(b(e[1]), e[2], e[3], parametric=e[4])
        if op == "dt":
            return b(e[1]).dt(e[2])
        if op == "grad":
            return V.grad(b(e[1]), parametric=e[2])
        if op == "hess":
            return V.hess(b(e[1]), parametric=e[2])
        if op == "diverg":
            return V.div(b(e[1]), parametric=e[2])
        if op == "curl":
            return V.curl(b(e[1]))
        if op == "neg":
            return -b(e[1])
        if op == "add":
            return b(e[1]) + b(e[2])
        if op == "sub":
            return b(e[1]) - b(e[2])
        if op == "mul":
            return b(e[1]) * b(e[2])
        if op == "div":
            return b(e[1]) / b(e[2])
        if op == "pow":
            return b(e[1]) ** e[2]
        if op == "fn":
            return abs(b(e[2])) if e[1] == "abs" else getattr(V, e[1])(b(e[2]))
        if op == "inner":
            return V.inner(b(e[1]), b(e[2]))
        if op == "dot":
            return V.dot(b(e[1]), b(e[2]))
        if op == "cross":
            return V.cross(b(e[1]), b(e[2]))
        if op == "outer":
            return V.outer(b(e[1]), b(e[2]))
        if op == "det":
            return V.det(b(e[1]))
        if op == "inv":
            return V.inv(b(e[1]))
        if op == "tr":
            return V.tr(b(e[1]))
        if op == "T":
            return b(e[1]).T
        if op == "norm":
            return V.norm(b(e[1]))
        if op == "vec":
            return V.as_vector([b(c) for c in e[1:]])
        if op == "mat":
            return V.as_matrix([[b(c) for c in row] for row in e[1]])
        raise ValueError("unknown node %r" % (op,))

    for name, e, sym in prog.get("lets", []):
        names["let:" + name] = vf.let(name, b(e), symmetric=bool(sym))
    for i, t in enumerate(prog["terms"]):
        vf.add(b(t))
        if after_term is not None:
            after_term(vf, i)
    return vf


def to_string(e):
    """textual front-end form of an expression (subset used by the string tests)"""
    op = e[0]
    s = to_string
    if op == "const":
        return repr(float(e[1]))
    if op in ("u", "v", "x", "jac", "gw", "n"):
        return op
    if op in ("param", "field"):
        return e[1]
    if op == "dxm":
        return "dx"
    if op == "dsm":
        return "ds"
    if op == "comp":
        idx = e[2]
        if isinstance(idx, (list, tuple)):
            return "(%s)[%s]" % (s(e[1]), ", ".join(str(i) for i in idx))
        return "(%s)[%d]" % (s(e[1]), idx)
    if op == "dx":
        return "Dx(%s, %d, %d, parametric=%s)" % (s(e[1]), e[2], e[3], bool(e[4]))
    if op in ("grad", "hess", "diverg"):
        return "%s(%s, parametric=%s)" % ("div" if op == "diverg" else op, s(e[1]), bool(e[2]))
    if op == "curl":
        return "curl(%s)" % s(e[1])
    if op == "neg":
        return "(-%s)" % s(e[1])
    if op in ("add", "sub", "mul", "div"):
        return "(%s %s %s)" % (s(e[1]), {"add": "+", "sub": "-", "mul": "*", "div": "/"}[op], s(e[2]))
    if op == "pow":
        return "(%s)**%d" % (s(e[1]), e[2])
    if op == "fn":
        return "%s(%s)" % (e[1], s(e[2]))
    if op in ("inner", "dot", "cross", "outer"):
        return "%s(%s, %s)" % (op, s(e[1]), s(e[2]))
    if op in ("det", "inv", "tr", "norm"):
        return "%s(%s)" % (op, s(e[1]))
    if op == "T":
        return "(%s).T" % s(e[1])
    if op == "vec":
        return "as_vector((%s,))" % ", ".join(s(c) for c in e[1:])
    raise ValueError("no string form for %r" % (op,))


# ---------------------------------------------------------------------------------------------------
# small constructors
# ---------------------------------------------------------------------------------------------------

U, Vv = ["u"], ["v"]
DXM, DSM, GW = ["dxm"], ["dsm"], ["gw"]


def c(x):
    return ["const", float(x)]


def mul(*es):
    r = es[0]
    for e in es[1:]:
        r = ["mul", r, e]
    return r


def add(a, b):
    return ["add", a, b]


def Dx(e, k, times=1, para=False):
    return ["dx", e, k, times, bool(para)]


def comp(e, *idx):
    return ["comp", e, list(idx)] if len(idx) > 1 else ["comp", e, idx[0]]


def base_prog(dim, arity=2, **kw):
    p = {"dim": dim, "geo_dim": kw.pop("geo_dim", dim), "boundary": kw.pop("boundary", None), "arity": arity,
         "spacetime": kw.pop("spacetime", False),
         "bfuns": {"u": [None, 0], "v": [None, 0]} if arity == 2 else {"v": [None, 0]},
         "inputs": {}, "params": {}, "lets": [], "terms": []}
    p.update(kw)
    return p


def decl_for(prog, e):
    """add the declarations the expression needs (fields f, fp, w, W; parameters p, b, M)"""
    d = prog["dim"]

    def walk(t):
        if not isinstance(t, list):
            return
        if t and t[0] == "field":
            name = t[1]
            shape = {"f": [], "g": [], "fp": [], "w": [d], "W": [d, d], "wp": [d]}[name]
            prog["inputs"].setdefault(name, {"shape": shape, "physical": name.endswith("p"), "updatable": False})
        elif t and t[0] == "param":
            name = t[1]
            prog["params"].setdefault(name, {"p": [], "q": [], "b": [d], "M": [d, d]}[name])
        for s in t[1:]:
            if isinstance(s, list):
                walk(s)
    walk(e)
    return prog


# ---------------------------------------------------------------------------------------------------
# program families
# ---------------------------------------------------------------------------------------------------

def scalar_ops(w, d, spacetime=False, second=True):
    """scalar expressions linear in the scalar basis function w: (tag, expr)"""
    out = [("w", w)]
    sd = d - 1 if spacetime else d
    for k in range(sd):
        out.append(("dx%d" % k, Dx(w, k)))
    for k in range(d):
        out.append(("dx%d_para" % k, Dx(w, k, 1, True)))
    if second:
        for i in range(sd):
            for j in range(i, sd):
                out.append(("hess%d%d" % (i, j), comp(["hess", w, False], i, j)))
        out.append(("hess00_para", comp(["hess", w, True], 0, 0)))
        if d >= 2:
            out.append(("dx0dx1_para", Dx(Dx(w, 0, 1, True), 1, 1, True)))
    if spacetime:
        out.append(("dt", ["dt", w, 1]))
        out.append(("dt2", ["dt", w, 2]))
        out.append(("dt_dx0", ["dt", Dx(w, 0), 1]))
    return out


def coef_atoms(d, volume=True, spacetime=False):
    """scalar coefficient expressions: (tag, expr, nonpolynomial?)"""
    f, fp, p = ["field", "f"], ["field", "fp"], ["param", "p"]
    x0 = comp(["x"], 0)
    out = [("one", c(1.0), False), ("c2.5", c(2.5), False), ("cm1", c(-1.0), False), ("cm2", c(-2.0), False),
           ("p", p, False), ("f", f, False), ("fp", fp, False), ("x0", x0, False)]
    if volume:
        out += [("detjac", ["det", ["jac"]], False)]
    if volume and not spacetime:      # derivatives of input fields in (deprecated) space-time forms are not generated
        out += [("dxf", Dx(f, 0), False), ("dxf_para", Dx(f, d - 1, 1, True), False),
                ("hessf", comp(["hess", f, False], 0, d - 1), False)]
    T1 = add(mul(f, f), c(1.5))                       # complexity-3 atom shared below
    out += [("T1", T1, False), ("f2", ["pow", f, 2], False), ("fm1", ["pow", add(f, c(3.0)), -1], True),
            ("quot", ["div", p, add(mul(f, f), c(2.0))], True)]
    for fn in FN_NAMES:
        arg = add(mul(f, f), c(1.5)) if fn in ("sqrt", "log") else T1
        out.append((fn, ["fn", fn, arg], True))
    # the same compound atom under two different wrappers: common-subexpression candidates
    out += [("sin+cos(T1)", add(["fn", "sin", T1], ["fn", "cos", T1]), True),
            ("exp*sqrt(T1)", mul(["fn", "exp", T1], ["fn", "sqrt", T1]), True),
            ("T1*T1", mul(T1, T1), False),
            ("T1-T1b", ["sub", T1, add(mul(f, f), c(2.5))], False),
            ("Tm1*Tm2", mul(add(mul(f, f, f), c(-1.0)), add(mul(f, f, f), c(-2.0))), False)]
    # both orientations of a non-commutative operation on the same two compound operands
    g = ["field", "g"]
    A, B = add(mul(f, f), c(1.5)), add(mul(g, g), p)
    out += [("mirror-sub", mul(["sub", A, B], add(["sub", B, A], c(3.0))), False),
            ("mirror-div", add(["div", A, add(B, c(2.0))], mul(c(2.0), ["div", add(B, c(2.0)), A])), True)]
    if d >= 2:
        x1 = comp(["x"], 1)
        T2 = add(mul(x0, x1), p)
        out += [("T2", T2, False), ("T2*f+T2", add(mul(T2, f), T2), False)]
    # divisors that are products / negative integer powers > 1 (operator precedence in the emitted text), and a
    # subtraction of a product with the literal -1 (two folding rules cooperating)
    out += [("quot-prod", ["div", p, mul(add(mul(f, f), c(1.5)), add(mul(g, g), c(2.0)))], True),
            ("fm2", ["pow", add(mul(f, f), c(3.0)), -2], True),
            ("sub-neg", ["sub", f, mul(c(-1.0), add(mul(g, g), p))], False),
            ("sub-divm1", ["sub", f, ["div", add(mul(g, g), p), c(-1.0)]], True)]
    # literals close to, but different from, the constants that folding treats specially (0, 1, -1)
    out += [("near1", mul(c(1.000004), f), False), ("div-nearm1", ["div", f, c(-0.999995)], True),
            ("tiny", mul(mul(c(1e-9), f), c(1e9)), False), ("sub-tiny", mul(["sub", mul(c(1e-9), f), c(2.5e-9)], c(1e9)), False)]
    return out


def scalar_bilinear(d, tier, spacetime=False):
    """coef * Lu(u) * Lv(v) * dx  and a few sums of two such terms"""
    progs = []
    ops_u = scalar_ops(U, d, spacetime, second=not spacetime)
    ops_v = scalar_ops(Vv, d, spacetime, second=not spacetime)
    coefs = coef_atoms(d, spacetime=spacetime)
    # all operator pairs with coefficient one
    for (tu, eu), (tv, ev) in itertools.product(ops_u, ops_v):
        p = base_prog(d, spacetime=spacetime)
        p["terms"] = [mul(eu, ev, DXM)]
        p["tag"] = "bilin:%dD%s:%s*%s" % (d, "st" if spacetime else "", tu, tv)
        progs.append(p)
    # every coefficient with a representative set of operator pairs
    reps = [(ops_u[0], ops_v[0]), (ops_u[1], ops_v[min(2, len(ops_v) - 1)]), (ops_u[-1], ops_v[1])]
    for (tc, ec, _), ((tu, eu), (tv, ev)) in itertools.product(coefs, reps):
        p = base_prog(d, spacetime=spacetime)
        p["terms"] = [mul(ec, eu, ev, DXM)]
        decl_for(p, ec)
        p["tag"] = "coef:%dD%s:%s:%s*%s" % (d, "st" if spacetime else "", tc, tu, tv)
        progs.append(p)
    # the same compound atom in two added integrands / on both basis functions
    f = ["field", "f"]
    T1 = add(mul(f, f), c(1.5))
    for (tu, eu), (tv, ev) in [(ops_u[0], ops_v[0]), (ops_u[1], ops_v[1])]:
        p = base_prog(d, spacetime=spacetime)
        p["terms"] = [mul(mul(T1, eu), mul(T1, ev), DXM)]
        decl_for(p, T1)
        p["tag"] = "shared:%dD:T1*%s.T1*%s" % (d, tu, tv)
        progs.append(p)
        p = base_prog(d, spacetime=spacetime)
        p["terms"] = [mul(["fn", "sin", T1], eu, ev, DXM), mul(["fn", "cos", T1], ev, eu, DXM)]
        decl_for(p, T1)
        p["tag"] = "shared:%dD:two-terms:%s,%s" % (d, tu, tv)
        progs.append(p)
    return progs


def vector_coef_forms(d):
    """contractions with vector/matrix coefficients and geometry terms (volume)"""
    progs = []
    b, M, w, W = ["param", "b"], ["param", "M"], ["field", "w"], ["field", "W"]
    gu, gv = ["grad", U, False], ["grad", Vv, False]
    gup, gvp = ["grad", U, True], ["grad", Vv, True]
    forms = [
        ("laplace", ["inner", gu, gv]),
        ("laplace_para", ["inner", gup, gvp]),
        ("convection", mul(["inner", gu, b], Vv)),
        ("convection_w", mul(["dot", w, gu], Vv)),
        ("aniso", ["inner", ["dot", M, gu], gv]),
        ("aniso_W", ["dot", ["dot", W, gu], gv]),
        ("aniso_T", ["inner", ["dot", ["T", M], gu], gv]),
        ("outer", ["inner", ["outer", gu, b], ["outer", gv, b]]),
        ("trace", mul(["tr", ["outer", gu, gv]], ["tr", M])),
        ("detM", mul(["det", M], U, Vv)),
        ("invM", ["inner", ["dot", ["inv", add_mat_identity(M, d)], gu], gv]),
        ("jacjac", ["inner", ["dot", ["T", ["jac"]], gu], ["dot", ["T", ["jac"]], gv]]),
        ("invjac", ["inner", ["dot", ["T", ["inv", ["jac"]]], gup], ["dot", ["T", ["inv", ["jac"]]], gvp]]),
        ("normx", mul(["norm", ["x"]], U, Vv)),
        ("hessu:hessv", ["inner", ["hess", U, False], ["hess", Vv, False]]),
        ("laplace_u*v", mul(["tr", ["hess", U, False]], Vv)),
        ("grad_w", mul(["tr", ["grad", w, False]], U, Vv)),
        ("div_w", mul(["diverg", w, False], U, Vv)),
        ("slice", ["inner", comp(["jac"], ["slice", None, None, None], 0), gu]),
        ("skew_w", ["inner", ["dot", ["sub", ["grad", w, False], ["T", ["grad", w, False]]], gu], gv]),
        ("skew_M", ["inner", ["dot", ["sub", M, ["T", M]], gu], gv]),
    ]
    if d == 3:
        forms += [("cross", ["inner", ["cross", gu, b], gv]),
                  ("cross_x", ["inner", ["cross", gu, ["x"]], ["cross", gv, b]])]
    for tag, e in forms:
        if tag == "slice":
            e = mul(e, Vv)
        p = base_prog(d)
        p["terms"] = [mul(e, DXM)]
        decl_for(p, e)
        p["tag"] = "vcoef:%dD:%s" % (d, tag)
        progs.append(p)
    return progs


def add_mat_identity(M, d):
    """M + 3 I as a literal matrix expression (keeps it invertible for small parameter values)"""
    return ["mat", [[add(comp(M, i, j), c(3.0)) if i == j else comp(M, i, j) for j in range(d)] for i in range(d)]]


def vector_bfun_forms(d):
    """vector-valued basis functions with square and non-square component blocks"""
    progs = []
    def P(nu, nv, tag, e, arity=2, **kw):
        p = base_prog(d, arity=arity, **kw)
        if arity == 2:
            p["bfuns"] = {"u": [nu, 0], "v": [nv, 0]}
        else:
            p["bfuns"] = {"v": [nv, 0]}
        p["terms"] = [mul(e, DXM)]
        decl_for(p, e)
        p["tag"] = "vecbf:%dD:(%s,%s):%s" % (d, nu, nv, tag)
        progs.append(p)
    gu, gv = ["grad", U, False], ["grad", Vv, False]
    b = ["param", "b"]
    P(d, d, "vlaplace", ["inner", gu, gv])
    P(d, d, "divdiv", mul(["diverg", U, False], ["diverg", Vv, False]))
    P(d, d, "mass", ["inner", U, Vv])
    P(d, d, "sym", ["inner", add(gu, ["T", gu]), gv])
    P(d, 1, "div_u*q", mul(["diverg", U, False], Vv))
    P(1, d, "p*div_v", mul(U, ["diverg", Vv, False]))
    P(d, 1, "u.b*v", mul(["inner", U, b], Vv))
    if d == 2:
        P(2, 3, "u0*v2+u1*v0", add(mul(comp(U, 0), comp(Vv, 2)), mul(Dx(comp(U, 1), 0), comp(Vv, 0))))
        P(3, 2, "comp", add(mul(comp(U, 2), comp(Vv, 1)), mul(comp(U, 0), Dx(comp(Vv, 0), 1))))
    if d == 3:
        P(3, 3, "curlcurl", ["inner", ["curl", U], ["curl", Vv]])
        P(3, 3, "cross", ["inner", ["cross", U, b], Vv])
    # vector functionals
    w, f = ["field", "w"], ["field", "f"]
    P(None, d, "f_w.v", ["inner", w, Vv], arity=1)
    P(None, d, "f*div_v", mul(f, ["diverg", Vv, False]), arity=1)
    P(None, 2, "comp1", mul(f, comp(Vv, 1)), arity=1)
    return progs


def functionals(d):
    progs = []
    f, fp, p = ["field", "f"], ["field", "fp"], ["param", "p"]
    for tag, e in [("f*v", mul(f, Vv)), ("fp*v", mul(fp, Vv)), ("p*dxv", mul(p, Dx(Vv, 0))),
                   ("gradf.gradv", ["inner", ["grad", f, False], ["grad", Vv, False]]),
                   ("x0*v", mul(comp(["x"], 0), Vv)), ("exp(f)*v", mul(["fn", "exp", f], Vv)),
                   ("hessv", mul(f, comp(["hess", Vv, False], 0, d - 1)))]:
        pr = base_prog(d, arity=1)
        pr["terms"] = [mul(e, DXM)]
        decl_for(pr, e)
        pr["tag"] = "func:%dD:%s" % (d, tag)
        progs.append(pr)
    pr = base_prog(d, arity=1)
    pr["terms"] = [mul(f, Vv, GW)]
    decl_for(pr, f)
    pr["tag"] = "func:%dD:f*v*gw" % d
    progs.append(pr)
    return progs


def parametric_measure(d):
    """integrals with the bare Gauss weight (no geometry factor)"""
    progs = []
    for tag, e in [("u*v*gw", mul(U, Vv, GW)), ("dxu*dxv*gw", mul(Dx(U, 0, 1, True), Dx(Vv, d - 1, 1, True), GW))]:
        p = base_prog(d)
        p["terms"] = [e]
        p["tag"] = "gw:%dD:%s" % (d, tag)
        progs.append(p)
    return progs


def surface_forms(d):
    """surface integrals: geo_dim = d+1 (curve in 2D, surface in 3D); parametric derivatives only"""
    progs = []
    f = ["field", "f"]
    nn = ["inner", ["n"], ["n"]]
    b = ["param", "bb"]
    for tag, e in [("u*v", mul(U, Vv)), ("f*u*v", mul(f, U, Vv)), ("x0*u*v", mul(comp(["x"], 0), U, Vv)),
                   ("n.n*u*v", mul(nn, U, Vv)), ("dxu*dxv_para", mul(Dx(U, 0, 1, True), Dx(Vv, 0, 1, True))),
                   ("(n0)^2*u*v", mul(["pow", comp(["n"], 0), 2], U, Vv))]:
        p = base_prog(d, geo_dim=d + 1)
        p["terms"] = [mul(e, DSM)]
        decl_for(p, e)
        p["tag"] = "surf:%dD:%s" % (d, tag)
        progs.append(p)
    p = base_prog(d, geo_dim=d + 1, arity=1)
    p["terms"] = [mul(f, Vv, DSM)]
    decl_for(p, f)
    p["tag"] = "surf:%dD:f*v" % d
    progs.append(p)
    return progs


def boundary_forms(d):
    """boundary integrals over every face (kvs axis, side)"""
    progs = []
    f, fp = ["field", "f"], ["field", "fp"]
    for ax in range(d):
        for side in (0, 1):
            forms = [("u*v", mul(U, Vv), 2), ("fp*v", mul(fp, Vv), 1)]
            if d >= 2:
                forms += [("n0*u*v", mul(comp(["n"], 0), U, Vv), 2),
                          ("gradu.n*v", mul(["inner", ["grad", U, False], ["n"]], Vv), 2),
                          ("f*n1*v", mul(f, comp(["n"], 1), Vv), 1)]
            for tag, e, ar in forms:
                p = base_prog(d, arity=ar, boundary=[ax, side])
                p["terms"] = [mul(e, DSM)]
                decl_for(p, e)
                p["tag"] = "bdry:%dD:(%d,%d):%s" % (d, ax, side, tag)
                progs.append(p)
    return progs


def two_space_forms(d):
    """Petrov-Galerkin: trial and test functions in different spaces"""
    progs = []
    for tag, e in [("u*v", mul(U, Vv)), ("dxu*v", mul(Dx(U, 0), Vv)), ("gradu.gradv", ["inner", ["grad", U, False], ["grad", Vv, False]])]:
        p = base_prog(d)
        p["bfuns"] = {"u": [None, 0], "v": [None, 1]}
        p["terms"] = [mul(e, DXM)]
        p["tag"] = "pg:%dD:%s" % (d, tag)
        progs.append(p)
    return progs


def predefined(d):
    return ["mass_vf", "stiffness_vf", "divdiv_vf", "L2functional_vf", "L2functional_vf:physical"] + \
           (["heat_st_vf", "wave_st_vf"] if d >= 2 else [])


def spec_of_predefined(name, d):
    """the mathematical meaning of the predefined forms, written as spec programs"""
    gu, gv = ["grad", U, False], ["grad", Vv, False]
    f = ["field", "f"]
    if name == "mass_vf":
        p = base_prog(d); p["terms"] = [mul(U, Vv, DXM)]
    elif name == "stiffness_vf":
        p = base_prog(d); p["terms"] = [mul(["inner", gu, gv], DXM)]
    elif name == "divdiv_vf":
        p = base_prog(d); p["bfuns"] = {"u": [d, 0], "v": [d, 0]}
        p["terms"] = [mul(["diverg", U, False], ["diverg", Vv, False], DXM)]
    elif name.startswith("L2functional_vf"):
        p = base_prog(d, arity=1)
        p["inputs"]["f"] = {"shape": [], "physical": name.endswith("physical"), "updatable": False}
        p["terms"] = [mul(f, Vv, DXM)]
    elif name == "heat_st_vf":
        p = base_prog(d, spacetime=True)
        p["terms"] = [mul(add(["inner", gu, gv], mul(["dt", U, 1], Vv)), DXM)]
    elif name == "wave_st_vf":
        p = base_prog(d, spacetime=True)
        p["terms"] = [mul(add(mul(["dt", U, 2], ["dt", Vv, 1]), ["inner", gu, ["dt", gv, 1]]), DXM)]
    else:
        raise ValueError(name)
    p["tag"] = "predef:%dD:%s" % (d, name)
    return p


def all_programs(dims=(1, 2, 3)):
    """the full deterministic program list, simplest first"""
    progs = []
    for d in dims:
        progs += scalar_bilinear(d, None)
        progs += functionals(d)
        progs += parametric_measure(d)
        if d >= 2:
            progs += vector_coef_forms(d)
            progs += vector_bfun_forms(d)
            progs += scalar_bilinear(d, None, spacetime=True)
        if d <= 2:
            progs += surface_forms(d)
        if d >= 2:      # a boundary integral needs a face of dimension >= 1 (the library asserts this)
            progs += boundary_forms(d)
        progs += two_space_forms(d)
    return progs
