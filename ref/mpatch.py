"""Reference model for multipatch gluing (C14): patches are multilinear images of the unit cube given by
their corner arrays; identifications are decided geometrically / by the documented face ordering and
closed with a plain union-find.  Independent of pyiga (numpy only)."""
import itertools

import numpy as np


def greville(p, nspans, mult=1):
    """Greville abscissae of the open uniform knot vector of degree p with nspans spans on [0,1]."""
    kn = [0.0] * (p + 1)
    for i in range(1, nspans):
        kn += [i / nspans] * mult
    kn += [1.0] * (p + 1)
    n = len(kn) - p - 1
    if p == 0:
        return np.array([(kn[i] + kn[i + 1]) / 2 for i in range(n)])
    return np.array([sum(kn[i + 1:i + p + 1]) / p for i in range(n)])


class Patch:
    """corners: array of shape (2,)*d + (D,): images of the corners of [0,1]^d, indexed like pyiga
    coefficient arrays (first array axis = first parameter axis).  nsp[k], p: discretisation along
    parameter axis k."""
    def __init__(self, corners, nsp, p):
        self.corners = np.asarray(corners, float)
        self.d = self.corners.ndim - 1
        self.nsp = tuple(nsp)
        self.p = p

    @property
    def ndofs(self):
        return tuple(self.p + n for n in self.nsp)   # mult 1

    def flipped(self, k):
        return Patch(np.flip(self.corners, k).copy(), self.nsp, self.p)

    def swapped(self, a, b):
        perm = list(range(self.d))
        perm[a], perm[b] = perm[b], perm[a]
        nsp = list(self.nsp)
        nsp[a], nsp[b] = nsp[b], nsp[a]
        return Patch(np.transpose(self.corners, perm + [self.d]).copy(), nsp, self.p)

    def phys(self, t):
        """multilinear map at parameter point t (tuple of length d)"""
        c = self.corners
        for k in range(self.d):
            c = (1 - t[k]) * c[0] + t[k] * c[1]
        return c

    def dof_positions(self):
        """dict multi-index -> physical position of the Greville point (rounded for set comparison)"""
        gs = [greville(self.p, n) for n in self.nsp]
        out = {}
        for mi in itertools.product(*(range(len(g)) for g in gs)):
            out[mi] = self.phys(tuple(g[i] for g, i in zip(gs, mi)))
        return out

    def ravel(self, mi):
        return int(np.ravel_multi_index(mi, self.ndofs))


def face_multi_indices(ndofs, ax, side, flip=None):
    """Documented ordering of the dofs on face (ax, side): lexicographic in the remaining axes; flip[k]
    reverses the k-th remaining axis."""
    rem = [k for k in range(len(ndofs)) if k != ax]
    ranges = []
    for j, k in enumerate(rem):
        r = list(range(ndofs[k]))
        if flip is not None and flip[j]:
            r.reverse()
        ranges.append(r)
    out = []
    for combo in itertools.product(*ranges):
        mi = [None] * len(ndofs)
        mi[ax] = 0 if side == 0 else ndofs[ax] - 1
        for k, v in zip(rem, combo):
            mi[k] = v
        out.append(tuple(mi))
    return out


def _key(x):
    return tuple(np.round(np.asarray(x) * 1e7).astype(np.int64).tolist())


def reference_interfaces(patches):
    """All (p1, bd1, p2, bd2, flip) with p1 < p2 whose faces coincide geometrically dof by dof and can be
    matched by axis flips alone (what join_boundaries supports).  Returns also the list of coinciding
    face pairs that would need an axis swap (not representable)."""
    res, unrepresentable = [], []
    pos = [P.dof_positions() for P in patches]
    for p1 in range(len(patches)):
        for p2 in range(p1 + 1, len(patches)):
            P1, P2 = patches[p1], patches[p2]
            if P1.d != P2.d:
                continue
            faces = list(itertools.product(range(P1.d), (0, 1)))
            for bd1 in faces:
                f1 = face_multi_indices(P1.ndofs, *bd1)
                s1 = {_key(pos[p1][m]) for m in f1}
                for bd2 in faces:
                    f2 = face_multi_indices(P2.ndofs, *bd2)
                    if len(f1) != len(f2):
                        continue
                    s2 = {_key(pos[p2][m]) for m in f2}
                    if s1 != s2:
                        continue
                    found = None
                    for flip in itertools.product((False, True), repeat=P1.d - 1):
                        g2 = face_multi_indices(P2.ndofs, *bd2, flip=flip)
                        if all(_key(pos[p1][a]) == _key(pos[p2][b]) for a, b in zip(f1, g2)):
                            found = flip
                            break
                    if found is None:
                        unrepresentable.append((p1, bd1, p2, bd2))
                    else:
                        res.append((p1, bd1, p2, bd2, tuple(found)))
    return res, unrepresentable


def declared_pairs(patches, intf):
    """The identifications a join_boundaries(p1,bd1,p2,bd2,flip) call declares (documented ordering)."""
    p1, bd1, p2, bd2, flip = intf
    P1, P2 = patches[p1], patches[p2]
    f1 = face_multi_indices(P1.ndofs, *bd1)
    f2 = face_multi_indices(P2.ndofs, *bd2, flip=flip)
    assert len(f1) == len(f2)
    return [((p1, P1.ravel(a)), (p2, P2.ravel(b))) for a, b in zip(f1, f2)]


class UnionFind:
    def __init__(self):
        self.parent = {}

    def find(self, x):
        self.parent.setdefault(x, x)
        r = x
        while self.parent[r] != r:
            r = self.parent[r]
        while self.parent[x] != r:
            self.parent[x], x = r, self.parent[x]
        return r

    def union(self, a, b):
        ra, rb = self.find(a), self.find(b)
        if ra != rb:
            self.parent[max(ra, rb)] = min(ra, rb)


def closure_partition(patches, joins):
    """frozenset of frozensets: the classes (with >= 1 member, all local dofs included) generated by the joins"""
    uf = UnionFind()
    for pi, P in enumerate(patches):
        for i in range(int(np.prod(P.ndofs))):
            uf.find((pi, i))
    for intf in joins:
        for a, b in declared_pairs(patches, intf):
            uf.union(a, b)
    classes = {}
    for x in list(uf.parent):
        classes.setdefault(uf.find(x), set()).add(x)
    return frozenset(frozenset(c) for c in classes.values())


# ---------------------------------------------------------------------------------------------
# patch complexes
# ---------------------------------------------------------------------------------------------

def box_patch(lo, hi, nsp_phys, p):
    """axis-aligned box; parameter axis k runs along physical direction d-1-k (pyiga convention: last
    parameter axis = x).  nsp_phys[c] = spans along physical direction c."""
    d = len(lo)
    corners = np.zeros((2,) * d + (d,))
    for idx in itertools.product((0, 1), repeat=d):
        for k in range(d):
            c = d - 1 - k
            corners[idx + (c,)] = hi[c] if idx[k] else lo[c]
    nsp = tuple(nsp_phys[d - 1 - k] for k in range(d))
    return Patch(corners, nsp, p)


def grid_complex(shape, nsp_phys, p):
    """shape = number of boxes per physical direction (x, y[, z]); boxes ordered x fastest"""
    d = len(shape)
    patches = []
    for idx in itertools.product(*(range(n) for n in reversed(shape))):
        cell = tuple(reversed(idx))  # (ix, iy, ..)
        patches.append(box_patch([float(c) for c in cell], [float(c + 1) for c in cell], nsp_phys, p))
    return patches


def ring_complex(k, nsp, p):
    """k bilinear quads around the origin; patch j spans the sector between rays j and j+1"""
    patches = []
    ang = [2 * np.pi * j / k for j in range(k + 1)]
    ray = [np.array([np.cos(a), np.sin(a)]) for a in ang]
    for j in range(k):
        a, b = ray[j], ray[(j + 1) % k] if j + 1 < k else ray[0]
        far = 1.3 * (a + b)
        corners = np.zeros((2, 2, 2))
        corners[0, 0] = (0.0, 0.0)
        corners[0, 1] = a
        corners[1, 0] = b
        corners[1, 1] = far
        patches.append(Patch(corners, (nsp, nsp), p))
    return patches


def lshape_complex(nsp_phys, p):
    cells = [(0, 0), (1, 0), (0, 1)]
    return [box_patch([float(c) for c in cell], [float(c + 1) for c in cell], nsp_phys, p) for cell in cells]
