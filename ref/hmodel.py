"""Reference model of hierarchical (HB / THB) spline spaces over dyadically refined tensor-product meshes.

Everything is derived *declaratively* from the cell state (which cells of which level have been refined):
  Omega_l  = region covered by the level-l cells that exist (active or refined),
  a level-l B-spline is ACTIVE      iff supp in Omega_l and supp not in Omega_{l+1},
                        DEACTIVATED iff supp in Omega_l and supp in Omega_{l+1}  (= all its level-l cells refined).
Matrices come from exact knot insertion (ref/bsp.py); dyadic refinement makes all entries exact floats.
Independent of pyiga (numpy only).
"""
import itertools

import numpy as np

from . import bsp


class HModel:
    def __init__(self, degs, ncoarse, mults=None, interval=(0.0, 1.0), breaks=None):
        """degs[d], ncoarse[d]: degree and number of coarse cells along parameter axis d (axis 0 first, as in
        pyiga kvs tuples).  mults[d]: multiplicity of the coarse interior knots (default 1).  breaks[d]: the coarse
        breakpoints of axis d (default: uniform on `interval`); finer levels bisect every cell."""
        self.breaks = None
        if breaks and any(b for b in breaks):
            self.breaks = [list(map(float, b)) if b else None for b in breaks]
            for b, k in zip(self.breaks, ncoarse):
                if b is not None and len(b) != k + 1:
                    raise ValueError("breaks do not match ncoarse")
        self.dim = len(degs)
        self.degs = tuple(degs)
        self.ncoarse = tuple(ncoarse)
        self.mults = tuple(mults) if mults else (1,) * self.dim
        self.a, self.b = interval
        self._kn = {}
        self._P = {}
        self._supp = {}

    # -- univariate data per level ------------------------------------------------------------------
    def ncell(self, l, d):
        return self.ncoarse[d] * 2 ** l

    def knots(self, l, d):
        key = (l, d)
        if key not in self._kn:
            p, k, m = self.degs[d], self.ncoarse[d], self.mults[d]
            n = k * 2 ** l
            a, b = self.a, self.b
            if self.breaks is not None and self.breaks[d] is not None:
                a, b = self.breaks[d][0], self.breaks[d][-1]
            kn = [a] * (p + 1)
            for i in range(1, n):
                x = self.point(l, d, i)
                is_coarse = (i % (2 ** l) == 0)
                kn += [x] * (m if is_coarse else 1)
            kn += [b] * (p + 1)
            self._kn[key] = kn
        return self._kn[key]

    def nfun(self, l, d):
        return len(self.knots(l, d)) - self.degs[d] - 1

    def supp1d(self, l, d, j):
        """range (c0, c1) of level-l cells along axis d in the support of the j-th B-spline"""
        key = (l, d)
        if key not in self._supp:
            kn, p = self.knots(l, d), self.degs[d]
            br = sorted(set(kn))
            idx = {x: i for i, x in enumerate(br)}
            self._supp[key] = [(idx[kn[j]], idx[kn[j + p + 1]]) for j in range(len(kn) - p - 1)]
        return self._supp[key][j]

    def P1d(self, l, d):
        """exact prolongation matrix level l -> l+1 along axis d (floats; dyadic => exact)"""
        key = (l, d)
        if key not in self._P:
            self._P[key] = bsp.to_float(bsp.refinement_matrix(self.knots(l, d), self.knots(l + 1, d), self.degs[d]))
        return self._P[key]

    def Ptp(self, l):
        M = self.P1d(l, 0)
        for d in range(1, self.dim):
            M = np.kron(M, self.P1d(l, d))
        return M

    def Ptp_range(self, l0, l1):
        """TP prolongation from level l0 to level l1 >= l0"""
        n0 = int(np.prod([self.nfun(l0, d) for d in range(self.dim)]))
        M = np.eye(n0)
        for l in range(l0, l1):
            M = self.Ptp(l) @ M
        return M

    def nfun_tp(self, l):
        return tuple(self.nfun(l, d) for d in range(self.dim))

    def all_cells(self, l):
        return list(itertools.product(*(range(self.ncell(l, d)) for d in range(self.dim))))

    def all_funcs(self, l):
        return list(itertools.product(*(range(self.nfun(l, d)) for d in range(self.dim))))

    def support_cells(self, l, f):
        return set(itertools.product(*(range(*self.supp1d(l, d, f[d])) for d in range(self.dim))))

    def ravel_fun(self, l, f):
        return int(np.ravel_multi_index(f, self.nfun_tp(l)))

    def point(self, l, d, i):
        """the i-th breakpoint of level l along axis d"""
        n = self.ncell(l, d)
        if self.breaks is None or self.breaks[d] is None:
            return self.a + (self.b - self.a) * i / n
        br = self.breaks[d]
        q, r = divmod(i, 2 ** l)
        if r == 0:
            return br[q]
        return br[q] + (br[q + 1] - br[q]) * r / 2 ** l

    def cell_extent(self, l, c):
        out = []
        for d in range(self.dim):
            out.append((self.point(l, d, c[d]), self.point(l, d, c[d] + 1)))
        return tuple(out)

    @staticmethod
    def children(c):
        return list(itertools.product(*(range(2 * ci, 2 * ci + 2) for ci in c)))

    @staticmethod
    def ancestor(c, up):
        return tuple(ci >> up for ci in c)

    # -- state-derived sets ---------------------------------------------------------------------------
    def cells(self, refined, L):
        """refined: list (per level) of sets of refined cells.  Returns (active, deact) lists of length L."""
        ref = [set(refined[l]) if l < len(refined) else set() for l in range(L)]
        active = []
        for l in range(L):
            if l == 0:
                exist = set(self.all_cells(0))
            else:
                exist = set()
                for c in ref[l - 1]:
                    exist.update(self.children(c))
            if not ref[l] <= exist:
                raise ValueError("refined cells that do not exist on level %d" % l)
            active.append(exist - ref[l])
        return active, ref

    def functions(self, refined, L):
        active, ref = self.cells(refined, L)
        actf, deactf = [], []
        for l in range(L):
            exist = active[l] | ref[l]
            A, D = set(), set()
            for f in self.all_funcs(l):
                S = self.support_cells(l, f)
                if S <= exist:
                    if S <= ref[l]:
                        D.add(f)
                    else:
                        A.add(f)
            actf.append(A)
            deactf.append(D)
        return actf, deactf

    # -- matrices -------------------------------------------------------------------------------------
    def canonical(self, actf):
        return [(l, f) for l in range(len(actf)) for f in sorted(actf[l])]

    def rep_hb(self, refined, L, lv=None):
        """columns: active functions of levels <= lv in canonical order followed (level lv) by the
        deactivated ones of level lv if lv < L-1 (the library's virtual-level ordering); rows: TP functions of
        level lv.  lv=None -> finest level L-1 (no deactivated functions exist there)."""
        actf, deactf = self.functions(refined, L)
        if lv is None:
            lv = L - 1
        cols = []
        for l in range(lv + 1):
            fs = sorted(actf[l]) + (sorted(deactf[l]) if l == lv else [])
            if not fs:
                continue
            Pl = self.Ptp_range(l, lv)
            idx = [self.ravel_fun(l, f) for f in fs]
            cols.append(Pl[:, idx])
        n = int(np.prod(self.nfun_tp(lv)))
        return np.hstack(cols) if cols else np.zeros((n, 0))

    def rep_thb(self, refined, L, lv=None):
        actf, deactf = self.functions(refined, L)
        if lv is None:
            lv = L - 1
        cols = []
        for l in range(lv + 1):
            fs = sorted(actf[l]) + (sorted(deactf[l]) if l == lv else [])
            if not fs:
                continue
            n_l = int(np.prod(self.nfun_tp(l)))
            C = np.zeros((n_l, len(fs)))
            for k, f in enumerate(fs):
                C[self.ravel_fun(l, f), k] = 1.0
            for m in range(l + 1, lv + 1):
                C = self.Ptp(m - 1) @ C
                kill = [self.ravel_fun(m, f) for f in (actf[m] | deactf[m])]
                C[kill, :] = 0.0
            cols.append(C)
        n = int(np.prod(self.nfun_tp(lv)))
        return np.hstack(cols) if cols else np.zeros((n, 0))

    # -- geometry-derived queries -----------------------------------------------------------------------
    def incidence(self, refined, L):
        """rows: active functions (canonical), cols: active cells (canonical); 1 iff the HB function is
        non-zero on the cell"""
        active, ref = self.cells(refined, L)
        actf, _ = self.functions(refined, L)
        funs = self.canonical(actf)
        cells = [(l, c) for l in range(L) for c in sorted(active[l])]
        Z = np.zeros((len(funs), len(cells)), dtype=int)
        supp = {(l, f): self.support_cells(l, f) for (l, f) in funs}
        for i, (l, f) in enumerate(funs):
            S = supp[(l, f)]
            for j, (lc, c) in enumerate(cells):
                if lc >= l:
                    if self.ancestor(c, lc - l) in S:
                        Z[i, j] = 1
                else:
                    # coarser active cell: overlaps iff some support cell descends from it
                    if any(self.ancestor(s, l - lc) == c for s in S):
                        Z[i, j] = 1
        return Z

    def max_level_gap(self, refined, L):
        """max over (active function of level k, active cell of level l it is non-zero on) of l - k"""
        active, ref = self.cells(refined, L)
        actf, _ = self.functions(refined, L)
        gap = 0
        for l in range(L):
            for f in actf[l]:
                S = self.support_cells(l, f)
                for lc in range(l + 1, L):
                    if any(self.ancestor(c, lc - l) in S for c in active[lc]):
                        gap = max(gap, lc - l)
        return gap

    def tiling_ok(self, refined, L):
        """active cells tile the domain exactly once: measured in units of finest cells (exact integers)"""
        active, ref = self.cells(refined, L)
        fin = L - 1
        count = {}
        for l in range(L):
            for c in active[l]:
                up = fin - l
                for leaf in itertools.product(*(range(ci << up, (ci + 1) << up) for ci in c)):
                    count[leaf] = count.get(leaf, 0) + 1
        total = int(np.prod([self.ncell(fin, d) for d in range(self.dim)]))
        return len(count) == total and all(v == 1 for v in count.values())
