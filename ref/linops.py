"""Dense reference definitions for C16 (linear-operator building blocks).

Everything here is the textbook explicit matrix: np.kron, np.block, sums of P B P^T, Kronecker matrix applied
to the (row-major) vectorisation of a tensor.  Independent of pyiga (numpy, math, functools only).
Payloads are small distinct integers stored as float64, so that every product/sum computed by either side
is exact and the comparison can be `==`.
"""
import math
from functools import reduce

import numpy as np


# ------------------------------------------------------------------------------------------------
# payloads
# ------------------------------------------------------------------------------------------------

def payload(m, n, idx=0, seed=0):
    """(m,n) float64 matrix with pairwise distinct non-zero integer entries of distinct absolute value,
    |entry| <= m*n + idx; idx distinguishes operands of one case, seed (VERIF_SEED) rotates the values."""
    mn = m * n
    pos = np.arange(mn)
    vals = 1 + (pos + 2 * idx + seed) % mn + idx
    sign = np.where((pos + seed + idx) % 3 == 2, -1, 1)
    return (vals * sign).astype(np.float64).reshape(m, n)


def xvec(n, seed=0):
    """distinct non-zero integer vector"""
    j = np.arange(n)
    return ((1 + (j + seed) % n) * np.where((j + seed) % 2 == 1, -1, 1)).astype(np.float64)


def xmat(n, k, seed=0):
    """(n,k) matrix with distinct non-zero integer entries (C-ordered)"""
    return payload(n, k, idx=1, seed=seed)


def prod(seq):
    return int(math.prod(int(s) for s in seq))


# ------------------------------------------------------------------------------------------------
# dense definitions
# ------------------------------------------------------------------------------------------------

def kron_all(mats):
    """A_0 (x) A_1 (x) ... (x) A_{d-1}"""
    return reduce(np.kron, mats)


def block_dense(blocks):
    """blocks: rectangular list of lists of dense 2-D arrays"""
    return np.block([[np.asarray(b, dtype=np.float64) for b in row] for row in blocks])


def block_diag(mats):
    M = sum(a.shape[0] for a in mats)
    N = sum(a.shape[1] for a in mats)
    out = np.zeros((M, N))
    i = j = 0
    for a in mats:
        out[i:i + a.shape[0], j:j + a.shape[1]] = a
        i += a.shape[0]
        j += a.shape[1]
    return out


def subspace_dense(Ps, Bs):
    """sum_j P_j B_j P_j^T"""
    n = Ps[0].shape[0]
    out = np.zeros((n, n))
    for P, B in zip(Ps, Bs):
        out += P @ B @ P.T
    return out


def tprod_ref(mats, A):
    """(mats[0] (x) ... (x) mats[d-1]) applied to the row-major vectorisation of the first d axes of A,
    trailing axes of A are carried along as columns"""
    d = len(mats)
    A = np.asarray(A)
    n_in = prod(A.shape[:d])
    trail = tuple(A.shape[d:])
    K = kron_all(mats)
    Y = K @ np.reshape(A, (n_in, prod(trail)), order="C")
    return Y.reshape(tuple(m.shape[0] for m in mats) + trail)


def modek_ref(B, k, X):
    """mode-k product: (I_pre (x) B (x) I_post) vec(X)"""
    X = np.asarray(X)
    pre, post = prod(X.shape[:k]), prod(X.shape[k + 1:])
    K = np.kron(np.kron(np.eye(pre), B), np.eye(post))
    Y = K @ np.reshape(X, (-1,), order="C")
    return Y.reshape(tuple(X.shape[:k]) + (B.shape[0],) + tuple(X.shape[k + 1:]))


def pattern_matrix(m, n, mask, seed=0):
    """(m,n) matrix whose non-zeros sit exactly at the bits of `mask` (row-major), values distinct integers"""
    M = payload(m, n, idx=0, seed=seed)
    bits = np.array([(mask >> b) & 1 for b in range(m * n)], dtype=np.float64).reshape(m, n)
    return M * bits


def open_knots(p, breaks, mults):
    """open knot vector: end knots p+1 fold, interior breakpoint i repeated mults[i] times"""
    kn = [float(breaks[0])] * (p + 1)
    for b, mu in zip(breaks[1:-1], mults):
        kn += [float(b)] * int(mu)
    kn += [float(breaks[-1])] * (p + 1)
    return kn


def laplacian_sum(KM):
    """sum_d M_0 (x) .. K_d .. (x) M_{D-1}"""
    D = len(KM)
    out = None
    for d in range(D):
        term = kron_all([KM[j][0] if j == d else KM[j][1] for j in range(D)])
        out = term if out is None else out + term
    return out
