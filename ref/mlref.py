"""Reference model for multi-level structured matrices (C15).

A level is a 0/1 pattern (dense small matrix).  The matrix denoted by levels P_1..P_L is the dense
numpy.kron(P_1, ..., P_L); its compact data layout is the tensor indexed by (s_1, ..., s_L) where s_k
runs over the nonzeros of level k *in the order of that level's index list*, stored row-major (last
level fastest).  Everything here is numpy / itertools only and independent of pyiga.
"""
import itertools

import numpy as np


# ------------------------------------------------------------------------------------------------
# patterns
# ------------------------------------------------------------------------------------------------

def all_patterns(m, n):
    """all non-empty 0/1 patterns of an m x n block, simplest first (fewest nonzeros, then by the
    row-major bit string with earlier positions first)"""
    out = []
    for mask in range(1, 2 ** (m * n)):
        bits = [(mask >> (m * n - 1 - k)) & 1 for k in range(m * n)]
        out.append(bits)
    out.sort(key=lambda b: (sum(b), [-x for x in b]))
    return [[b[i * n:(i + 1) * n] for i in range(m)] for b in out]


def first_nonzero(P):
    P = np.asarray(P)
    I, J = np.nonzero(P)
    return int(I[0]), int(J[0])


def pattern_single(m, n, i, j):
    P = np.zeros((m, n), int)
    P[i, j] = 1
    return P.tolist()


def pattern_dense_from(m, n, i, j):
    """every position from (i,j) on, in row-major order"""
    P = np.zeros(m * n, int)
    P[i * n + j:] = 1
    return P.reshape(m, n).tolist()


def pattern_banded_from(m, n, i, j, bw=1):
    """(i,j) itself plus every band position |r-c| <= bw that comes after it in row-major order"""
    P = np.zeros((m, n), int)
    for r in range(m):
        for c in range(n):
            if abs(r - c) <= bw and r * n + c >= i * n + j:
                P[r, c] = 1
    P[i, j] = 1
    return P.tolist()


def representatives(m, n, kinds=("single", "dense", "banded")):
    """every first-nonzero position x {single entry, dense from there on, banded from there on}; duplicates
    removed, simplest first"""
    out = []
    for i in range(m):
        for j in range(n):
            for kind in kinds:
                P = {"single": pattern_single, "dense": pattern_dense_from, "banded": pattern_banded_from}[kind](m, n, i, j)
                if P not in out:
                    out.append(P)
    return out


def row_major_bidx(P):
    I, J = np.nonzero(np.asarray(P))        # numpy documents C (row-major) order
    return [(int(i), int(j)) for i, j in zip(I, J)]


def kron_all(mats):
    X = np.ones((1, 1), dtype=np.asarray(mats[0]).dtype)
    for A in mats:
        X = np.kron(X, np.asarray(A))
    return X


# ------------------------------------------------------------------------------------------------
# compact layout
# ------------------------------------------------------------------------------------------------

def layout_positions(bs, bidx):
    """(I, J) int64 arrays: global position of data entry (s_1..s_L), raveled row-major.
    bs: [(m_k, n_k)], bidx: per level list of (i, j)"""
    I = np.zeros((), np.int64)
    J = np.zeros((), np.int64)
    for (m, n), b in zip(bs, bidx):
        b = np.asarray(b, np.int64).reshape(-1, 2)
        I = I[..., None] * m + b[:, 0]
        J = J[..., None] * n + b[:, 1]
    return I.ravel(), J.ravel()


def layout_positions_slow(bs, bidx):
    """the same by the definition, one multi-index at a time (cross-check of layout_positions)"""
    I, J = [], []
    for s in itertools.product(*[range(len(b)) for b in bidx]):
        i = j = 0
        for k, sk in enumerate(s):
            i = i * bs[k][0] + bidx[k][sk][0]
            j = j * bs[k][1] + bidx[k][sk][1]
        I.append(i)
        J.append(j)
    return np.array(I, np.int64), np.array(J, np.int64)


def shape_of(bs):
    M = N = 1
    for m, n in bs:
        M *= m
        N *= n
    return M, N


def dense_from_data(bs, bidx, data):
    """dense matrix with data entry (s_1..s_L) at its layout position"""
    I, J = layout_positions(bs, bidx)
    A = np.zeros(shape_of(bs), dtype=float)
    A[I, J] = np.asarray(data, float).ravel()
    return A


def reorder_dense(A, bs, axes):
    """the matrix whose level k is the old level axes[k]: kron(A_axes[0], ..., A_axes[L-1]) for rank-one A,
    extended linearly"""
    L = len(bs)
    ms = [b[0] for b in bs]
    ns = [b[1] for b in bs]
    T = np.asarray(A).reshape(ms + ns)
    T = T.transpose(list(axes) + [L + a for a in axes])
    M, N = shape_of(bs)
    return T.reshape(M, N)


def level_data(bidx_len, k, seed):
    """small positive integer payload for the nonzeros of level k"""
    return [float(((3 * s + 5 * k + seed) % 7) + 1) for s in range(bidx_len)]


def outer_all(vecs):
    X = np.ones((), float)
    for v in vecs:
        X = X[..., None] * np.asarray(v, float)
    return X


# ------------------------------------------------------------------------------------------------
# spline supports
# ------------------------------------------------------------------------------------------------

def knots(p, breaks, mults):
    """open knot vector: end knots p+1 times, interior breakpoints with the given multiplicities"""
    kv = [breaks[0]] * (p + 1)
    for b, mu in zip(breaks[1:-1], mults):
        kv += [b] * mu
    kv += [breaks[-1]] * (p + 1)
    return kv


def supports(kv, p):
    n = len(kv) - p - 1
    return [(kv[i], kv[i + p + 1]) for i in range(n)]


def overlap_pattern(kv_rows, p_rows, kv_cols, p_cols):
    """0/1 matrix: entry (i,j) = 1 iff the open supports of B-spline i of the row space and B-spline j
    of the column space intersect (intersection of positive length)"""
    sr, sc = supports(kv_rows, p_rows), supports(kv_cols, p_cols)
    P = np.zeros((len(sr), len(sc)), int)
    for i, (a0, a1) in enumerate(sr):
        for j, (b0, b1) in enumerate(sc):
            if max(a0, b0) < min(a1, b1):
                P[i, j] = 1
    return P


# ------------------------------------------------------------------------------------------------
# index maps
# ------------------------------------------------------------------------------------------------

def vlp_reorder(X, m1, n1):
    """Van Loan / Pitsianis rearrangement: row (i*n1+j) = row-major vectorisation of block (i,j)"""
    X = np.asarray(X)
    M, N = X.shape
    m2, n2 = M // m1, N // n1
    return X.reshape(m1, m2, n1, n2).transpose(0, 2, 1, 3).reshape(m1 * n1, m2 * n2)
