import time, json, os, resource, gc, sys
sys.path.insert(0,'/verif')
from props import c15
from mc import par
import pyiga.mlmatrix, scipy.sparse
g,mlc=c15.ml_cases("quick",0)
sub=[c for c in mlc if c["group"]=="L3:mixed-rectangular" and c15.needs_sandbox(c)][:960]
def ru(): 
    r=resource.getrusage(resource.RUSAGE_CHILDREN); return r.ru_utime, r.ru_stime
def inproc(c): return c15._check_counted(c)
if len(sys.argv)>1: gc.collect(); gc.freeze()
for name,fn,items,kw in (("inproc",inproc,sub,{}),("batch32",c15._batch_worker,[sub[i:i+32] for i in range(0,len(sub),32)],dict(chunk=1,min_parallel=2)),("percase",c15._worker,sub[:320],{})):
    t=time.time(); a=ru()
    par.pmap(fn,items,**kw)
    b=ru(); print(name,"wall %.1f user %.1f sys %.1f"%(time.time()-t,b[0]-a[0],b[1]-a[1]))
