import time, json, os, resource, gc, sys
sys.path.insert(0,'/verif')
from props import c15
from mc import par
import pyiga.mlmatrix, scipy.sparse
g,mlc=c15.ml_cases("quick",0)
sub=[c for c in mlc if c["group"]=="L4:2x2-first-nonzero-cover"]
gc.collect(); gc.freeze()
t=time.time()
par.pmap(c15._worker,sub,workers=8,chunk=48)
print("wall",time.time()-t)
