"""Fork-based parallel map that keeps enumeration order deterministic.

Cases are enumerated in the parent (simplest first), split into contiguous chunks, evaluated in
forked workers (the real pyiga is imported once in the parent), results are returned in case order.
"""
import multiprocessing as mp
import os
import sys
import traceback

_FUNC = None


def _run_chunk(args):
    idx, chunk = args
    out = []
    for c in chunk:
        try:
            out.append(_FUNC(c))
        except Exception:
            out.append(("__harness_error__", traceback.format_exc(), repr(c)[:500]))
    return idx, out


def workers_default():
    try:
        w = int(os.environ.get("VERIF_WORKERS", "0"))
    except ValueError:
        w = 0
    return w if w > 0 else min(16, os.cpu_count() or 1)


def pmap(func, cases, workers=None, chunk=None, min_parallel=48):
    """Evaluate func on every case; returns the list of results in order.  A Python exception inside
    func is a *harness error* (drivers catch the exceptions that are part of the property themselves)."""
    global _FUNC
    cases = list(cases)
    workers = workers or workers_default()
    if not cases:
        return []
    if workers <= 1 or len(cases) < min_parallel:
        _FUNC = func
        res = _run_chunk((0, cases))[1]
    else:
        if chunk is None:
            chunk = max(1, min(256, len(cases) // (workers * 8) or 1))
        chunks = [(i, cases[k:k + chunk]) for i, k in enumerate(range(0, len(cases), chunk))]
        _FUNC = func
        ctx = mp.get_context("fork")
        with ctx.Pool(workers) as pool:
            parts = pool.map(_run_chunk, chunks, chunksize=1)
        parts.sort(key=lambda t: t[0])
        res = [r for _, rs in parts for r in rs]
    for r in res:
        if isinstance(r, tuple) and len(r) == 3 and r[0] == "__harness_error__":
            sys.stderr.write("HARNESS ERROR in case %s\n%s\n" % (r[2], r[1]))
            raise SystemExit(2)
    return res
