"""Fork-based parallel map that keeps enumeration order deterministic and survives crashing cases.

Cases are enumerated in the parent (simplest first), split into contiguous chunks which are dealt
round-robin to forked workers (the real pyiga is imported once in the parent); results come back in
case order.  If a worker dies from a signal (a case crashed the interpreter), the cases of the chunk it
was working on are re-run one per forked child to find the culprit; the culprit's result is
`Crash(signal)` if the caller passed allow_crash=True, otherwise that is a harness error.
"""
import os
import pickle
import select
import signal
import struct
import sys
import traceback


class Crash:
    """result placeholder for a case that killed its process"""
    def __init__(self, sig):
        self.sig = sig

    def __repr__(self):
        try:
            name = signal.Signals(self.sig).name
        except Exception:
            name = str(self.sig)
        return "Crash(%s)" % name


def workers_default():
    try:
        w = int(os.environ.get("VERIF_WORKERS", "0"))
    except ValueError:
        w = 0
    return w if w > 0 else min(16, os.cpu_count() or 1)


def _make_roomy():
    """CPython 3.12 allocates the frame data stack in chunks and unmaps a chunk as soon as its first frame is
    popped; a hot loop sitting exactly at a chunk boundary then does mmap+munmap on EVERY call (measured: up to
    100x slowdown, mostly system time).  Running the worker body below a function with a huge frame makes that
    frame the long-lived first frame of a fresh large chunk, so everything below it has plenty of room."""
    K = 8400
    src = "def roomy(fn, *a):\n    if fn is None:\n        %s = None\n    return fn(*a)\n" % " = ".join("v%d" % i for i in range(K))
    ns = {}
    exec(compile(src, "<roomy>", "exec"), ns)
    return ns["roomy"]


roomy = _make_roomy()


def _eval(func, c):
    try:
        return roomy(func, c)
    except Exception:
        return ("__harness_error__", traceback.format_exc(), repr(c)[:500])


def _send(fd, obj):
    data = pickle.dumps(obj, protocol=4)
    os.write(fd, struct.pack("<Q", len(data)))
    off = 0
    while off < len(data):
        off += os.write(fd, data[off:off + (1 << 20)])


class _Reader:
    def __init__(self, fd):
        self.fd = fd
        self.buf = b""

    def feed(self):
        """read available bytes; returns list of complete messages, and eof flag"""
        try:
            chunk = os.read(self.fd, 1 << 20)
        except OSError:
            chunk = b""
        eof = not chunk
        self.buf += chunk
        msgs = []
        while len(self.buf) >= 8:
            (n,) = struct.unpack("<Q", self.buf[:8])
            if len(self.buf) < 8 + n:
                break
            msgs.append(pickle.loads(self.buf[8:8 + n]))
            self.buf = self.buf[8 + n:]
        return msgs, eof


def _spawn(func, chunk_ids, chunks):
    r, w = os.pipe()
    sys.stdout.flush()
    sys.stderr.flush()
    pid = os.fork()
    if pid == 0:
        code = 0
        try:
            os.close(r)
            for ci in chunk_ids:
                _send(w, (ci, [_eval(func, c) for c in chunks[ci]]))
            os.close(w)
        except BaseException:
            traceback.print_exc()
            code = 3
        finally:
            sys.stdout.flush()
            sys.stderr.flush()
            os._exit(code)
    os.close(w)
    return pid, r


def _run_single_isolated(func, case):
    """evaluate one case in its own child; returns result or Crash"""
    pid, r = _spawn(func, [0], [[case]])
    rd = _Reader(r)
    got = None
    while True:
        msgs, eof = rd.feed()
        for ci, res in msgs:
            got = res[0]
        if eof:
            break
    os.close(r)
    _, status = os.waitpid(pid, 0)
    if got is not None:
        return got
    if os.WIFSIGNALED(status):
        return Crash(os.WTERMSIG(status))
    return Crash(-os.WEXITSTATUS(status) if os.WIFEXITED(status) else 0)


def pmap(func, cases, workers=None, chunk=None, min_parallel=48, allow_crash=False):
    """Evaluate func on every case; returns the list of results in order.  A Python exception inside
    func is a *harness error* (drivers catch the exceptions that are part of the property themselves)."""
    cases = list(cases)
    workers = workers or workers_default()
    if not cases:
        return []
    if workers <= 1 or len(cases) < min_parallel:
        if allow_crash:
            res = [_run_single_isolated(func, c) for c in cases]
        else:
            res = [_eval(func, c) for c in cases]
    else:
        if chunk is None:
            chunk = max(1, min(256, len(cases) // (workers * 8) or 1))
        chunks = [cases[k:k + chunk] for k in range(0, len(cases), chunk)]
        workers = min(workers, len(chunks))
        assign = [list(range(w, len(chunks), workers)) for w in range(workers)]
        results = [None] * len(chunks)
        live = {}
        for w in range(workers):
            pid, r = _spawn(func, assign[w], chunks)
            live[r] = (pid, _Reader(r), list(assign[w]))
        while live:
            ready, _, _ = select.select(list(live), [], [])
            for r in ready:
                pid, rd, todo = live[r]
                msgs, eof = rd.feed()
                for ci, res in msgs:
                    results[ci] = res
                    todo.remove(ci)
                if eof:
                    os.close(r)
                    _, status = os.waitpid(pid, 0)
                    del live[r]
                    if todo:
                        # the worker died while working on chunk todo[0]
                        bad = todo[0]
                        sys.stderr.write("[par] worker %d died (status %d) in chunk %d; isolating its %d cases\n"
                                         % (pid, status, bad, len(chunks[bad])))
                        results[bad] = [_run_single_isolated(func, c) for c in chunks[bad]]
                        rest = todo[1:]
                        if rest:
                            pid2, r2 = _spawn(func, rest, chunks)
                            live[r2] = (pid2, _Reader(r2), list(rest))
        res = [x for rs in results for x in rs]
    for c, r in zip(cases, res):
        if isinstance(r, tuple) and len(r) == 3 and r[0] == "__harness_error__":
            sys.stderr.write("HARNESS ERROR in case %s\n%s\n" % (r[2], r[1]))
            raise SystemExit(2)
        if isinstance(r, Crash) and not allow_crash:
            sys.stderr.write("HARNESS ERROR: case %s killed its process: %r (driver did not declare allow_crash)\n"
                             % (repr(c)[:500], r))
            raise SystemExit(2)
    return res
