"""vcheck entry point: environment, rebuild of /repo, dispatch to props/cNN.py, evidence, exit code."""
import argparse
import importlib
import json
import os
import subprocess
import sys
import time
import traceback

VERIF = os.path.dirname(os.path.dirname(os.path.abspath(__file__)))
sys.path.insert(0, VERIF)

from mc import build, outcome  # noqa: E402


class Ctx:
    def __init__(self, prop, tier, seed):
        self.prop = prop
        self.tier = tier
        self.seed = seed
        self.thorough = tier == "thorough"
        self.t0 = time.time()
        self.treehash = None
        self.cache_dir = None

    def log(self, *a):
        print("[%s %6.1fs]" % (self.prop, time.time() - self.t0), *a, flush=True)


def validate_evidence(path):
    """validate with the tooling interpreter (jsonschema is not installed in /venv)"""
    code = ("import json,sys,jsonschema;"
            "jsonschema.validate(json.load(open(sys.argv[1])),json.load(open('/root/.vp/EVIDENCE.schema.json')))")
    if not os.path.exists("/root/.vp/EVIDENCE.schema.json"):
        return
    for exe in ("python3-vt", "/opt/veriftools/pyvenv/bin/python"):
        try:
            r = subprocess.run([exe, "-c", code, path], capture_output=True, text=True)
        except FileNotFoundError:
            continue
        if r.returncode != 0:
            sys.stderr.write("evidence file does not validate:\n" + r.stderr[-2000:])
            raise SystemExit(2)
        return


def replay_isolated(drv, case):
    """run the explorer-free oracle for one case in a forked child (a case may crash the interpreter)"""
    from mc import par
    r = par._run_single_isolated(drv.check_case, case)
    if isinstance(r, par.Crash):
        return [("crash:%r" % r, "the interpreter was killed: %r" % r)]
    if isinstance(r, tuple) and len(r) == 3 and r[0] == "__harness_error__":
        sys.stderr.write(r[1])
        return "__error__"
    return r


def rerun_keys(drv, ctx):
    """violation keys of a second, complete run of the driver in a forked child (same enumeration, same chunking,
    hence the same history in every worker).  Used for violations that depend on what ran earlier in the same
    process (library-level caches, shared buffers) and therefore do not reproduce from their single case."""
    from mc import par

    def again(_):
        out = par.roomy(drv.run, ctx)
        return sorted({v.key for v in out.violations})
    r = par._run_single_isolated(again, None)
    if isinstance(r, par.Crash) or (isinstance(r, tuple) and len(r) == 3 and r[0] == "__harness_error__"):
        return None
    return set(r)


def main():
    ap = argparse.ArgumentParser()
    ap.add_argument("prop", nargs="?")
    ap.add_argument("--tier", default=None)
    ap.add_argument("--replay", default=None)
    ap.add_argument("--setup", action="store_true")
    ap.add_argument("--no-build", action="store_true")
    args = ap.parse_args()

    if args.setup:
        build.ensure_built(verbose=True)
        import compileall
        compileall.compile_dir(VERIF, quiet=1, maxlevels=3) if False else None
        for tool in ("python3-vt", "tlc", "spin", "strace"):
            r = subprocess.run(["bash", "-lc", "command -v " + tool], capture_output=True, text=True)
            print("[setup] %-10s %s" % (tool, r.stdout.strip() or "MISSING"))
        print("[setup] tree hash", build.tree_hash())
        return 0

    prop = args.prop
    tier = args.tier or os.environ.get("VERIF_TIER") or "quick"
    if tier not in ("quick", "thorough"):
        tier = "quick"
    try:
        seed = int(os.environ.get("VERIF_SEED", "0"))
    except ValueError:
        seed = 0
    ctx = Ctx(prop, tier, seed)

    if not args.no_build:
        build.ensure_built()
    ctx.cache_dir, ctx.treehash = build.private_cache_env()

    # one assembly thread per process: the drivers parallelise over cases; checks about thread counts set
    # their own value in fresh child processes (the library's default is cpu_count() pool threads per process)
    import pyiga
    pyiga.set_max_threads(1)

    drv = importlib.import_module("props." + prop.lower())

    if args.replay:
        with open(args.replay) as f:
            rec = json.load(f)
        if isinstance(rec.get("case"), dict) and rec["case"].get("replay_mode") == "whole-run":
            keys = rerun_keys(drv, ctx)
            if keys is None:
                return 2
            if rec.get("key") in keys:
                print("REPRODUCED property=%s key=%s (whole-run replay) %s" % (prop, rec.get("key"), rec.get("what", "")))
                print("VIOLATION property=%s replay=%s" % (prop, args.replay))
                return 1
            print("replay: the whole run does not report this violation on this tree")
            return 0
        obs = [replay_isolated(drv, rec["case"]) for _ in range(2)]
        if "__error__" in obs:
            return 2
        if json.dumps(outcome.jsonable(obs[0]), sort_keys=True) != json.dumps(outcome.jsonable(obs[1]), sort_keys=True):
            print("replay is not deterministic", obs)
            return 2
        if obs[0]:
            for key, what in obs[0]:
                print("REPRODUCED property=%s key=%s %s" % (prop, key, what))
            print("VIOLATION property=%s replay=%s" % (prop, args.replay))
            return 1
        print("replay: case passes on this tree")
        return 0

    t0 = time.time()
    try:
        from mc import par
        out = par.roomy(drv.run, ctx)
    except SystemExit:
        raise
    except Exception:
        traceback.print_exc()
        print("HARNESS ERROR in %s (not a violation)" % prop)
        return 2
    wall = time.time() - t0

    findings = [f for f in outcome.load_findings() if f.get("property") == prop]
    open_keys = {f["key"]: f for f in findings if f.get("status") == "open"}
    known, fresh = {}, {}
    for v in out.violations:
        if v.key in open_keys:
            known.setdefault(v.key, v)
        else:
            fresh.setdefault(v.key, v)
    for k in sorted(known):
        print("KNOWN-FINDING: property=%s %s :: %s" % (prop, k, open_keys[k].get("what", known[k].what)))
    rc = 0
    confirmed = 0
    second_run = None
    for k in sorted(fresh):
        v = fresh[k]
        # a violation is only believed if the explorer-free oracle reproduces it, twice, identically
        o1, o2 = replay_isolated(drv, v.case), replay_isolated(drv, v.case)
        if o1 == "__error__" or o2 == "__error__":
            print("HARNESS ERROR while replaying", k)
            return 2
        if not o1 or json.dumps(outcome.jsonable(o1), sort_keys=True) != json.dumps(outcome.jsonable(o2), sort_keys=True):
            # not reproducible from the single case: the outcome may depend on what the same process did before
            # (process-wide state in the library).  Believed only if a second complete run reports the same key.
            if second_run is None:
                print("  (violation %s does not reproduce from its single case; running the whole check a second time)" % k, flush=True)
                second_run = rerun_keys(drv, ctx) or set()
            if k not in second_run:
                print("HARNESS ERROR: violation %s did not reproduce deterministically from its replay case" % k)
                print("  first:", v.what)
                print("  replays:", o1, o2)
                return 2
            v.case = {"replay_mode": "whole-run", "command": "./vcheck %s --tier %s" % (prop, tier), "case": v.case}
            v.what += "  [depends on the calls made earlier in the same process: reproduced by a second complete run, not by the single case]"
        path = outcome.write_replay(prop, v)
        print("  what: %s" % v.what)
        print("VIOLATION property=%s replay=%s" % (prop, path))
        confirmed += 1
        rc = 1
        if confirmed >= 10:
            print("  (%d further distinct violation keys not printed)" % (len(fresh) - confirmed))
            break
    out.extra["violation_keys"] = sorted(fresh)
    out.extra["known_finding_keys"] = sorted(known)
    level = getattr(drv, "LEVEL", "model_checking")
    path = outcome.write_evidence(prop, tier, seed, level, out, wall, len(fresh), len(known))
    validate_evidence(path)
    cov = "states=%d transitions=%d traces=%d evaluations=%d nontrivial=%d outcomes=%d exhaustive=%s" % (
        out.states, out.transitions, out.traces, out.evaluations,
        len(out.nontrivial) + out.nontrivial_extra, len(out.outcomes), out.exhaustive and not out.caps_hit)
    print("[%s] tier=%s seed=%d %s wall=%.1fs violations=%d known=%d" % (prop, tier, seed, cov, wall, len(fresh), len(known)))
    return rc


if __name__ == "__main__":
    sys.exit(main())
