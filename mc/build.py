"""Rebuild /repo's extension modules from the current working tree and provide a private,
tree-hash keyed compile cache for generated vform modules.

Nothing here lives under /tmp; the cache is /verif/.cache (gitignored, rebuilt on demand).
"""
import fcntl
import hashlib
import json
import os
import shutil
import subprocess
import sys
import time

REPO = os.environ.get("VERIF_REPO", "/repo")
VERIF = os.path.dirname(os.path.dirname(os.path.abspath(__file__)))
CACHE = os.path.join(VERIF, ".cache")
PY = "/venv/bin/python"

SRC_EXT = (".py", ".pyx", ".pxi", ".pxd", ".cc", ".h")


def _source_files():
    out = []
    for root, dirs, files in os.walk(os.path.join(REPO, "pyiga")):
        dirs[:] = sorted(d for d in dirs if d != "__pycache__")
        for f in sorted(files):
            if f.endswith(SRC_EXT):
                out.append(os.path.join(root, f))
    out.append(os.path.join(REPO, "setup.py"))
    return out


def tree_hash():
    h = hashlib.sha256()
    for p in _source_files():
        h.update(os.path.relpath(p, REPO).encode())
        h.update(b"\0")
        with open(p, "rb") as f:
            h.update(hashlib.sha256(f.read()).digest())
    return h.hexdigest()[:16]


def _native_hashes():
    """content hashes of the sources that feed compiled extension modules"""
    d = {}
    for p in _source_files():
        if p.endswith((".pyx", ".pxi", ".pxd", ".cc", ".h")) or p.endswith("setup.py"):
            with open(p, "rb") as f:
                d[os.path.relpath(p, REPO)] = hashlib.sha256(f.read()).hexdigest()
    return d


def ensure_built(verbose=False):
    """Run `setup.py build_ext -i` in /repo if any native source changed (by mtime, as distutils
    sees it, and additionally by content relative to the last build this framework performed)."""
    os.makedirs(CACHE, exist_ok=True)
    tag = hashlib.sha1(os.path.abspath(REPO).encode()).hexdigest()[:8] if os.path.abspath(REPO) != "/repo" else ""
    lockf = open(os.path.join(CACHE, "build%s.lock" % tag), "w")
    fcntl.flock(lockf, fcntl.LOCK_EX)
    try:
        stamp_path = os.path.join(CACHE, "buildstamp%s.json" % tag)
        cur = _native_hashes()
        try:
            with open(stamp_path) as f:
                old = json.load(f)
        except Exception:
            old = None
        if old is not None and old != cur:
            # content changed since our last build: make sure distutils/cythonize see it even if
            # the editor preserved mtimes
            now = time.time()
            for rel, hx in cur.items():
                if old.get(rel) != hx:
                    try:
                        os.utime(os.path.join(REPO, rel), (now, now))
                    except OSError:
                        pass
        so_missing = False
        for mod in ("bspline_cy", "lowrank_cy", "mlmatrix_cy", "assemble_tools_cy", "assemblers",
                    "fast_assemble_cy", "relaxation_cy"):
            if not any(f.startswith(mod + ".") and f.endswith(".so")
                       for f in os.listdir(os.path.join(REPO, "pyiga"))):
                so_missing = True
        t0 = time.time()
        # a no-op costs < 1 s; distutils rebuilds exactly the stale extensions
        r = subprocess.run([PY, "setup.py", "build_ext", "-i", "-j", "8"], cwd=REPO,
                           stdout=subprocess.PIPE, stderr=subprocess.STDOUT, text=True)
        if r.returncode != 0:
            sys.stderr.write(r.stdout[-4000:])
            raise SystemExit(2)
        if verbose or time.time() - t0 > 5 or so_missing:
            print("[build] setup.py build_ext -i took %.1fs" % (time.time() - t0), flush=True)
        with open(stamp_path, "w") as f:
            json.dump(cur, f)
    finally:
        fcntl.flock(lockf, fcntl.LOCK_UN)
        lockf.close()


def private_cache_env(subdir=None):
    """Point pyiga's module cache at /verif/.cache/<treehash>[/<subdir>]; prune caches of other trees."""
    th = tree_hash()
    base = os.path.join(CACHE, "xdg", th)
    os.makedirs(base, exist_ok=True)
    xdgroot = os.path.join(CACHE, "xdg")
    # prune caches of other source trees, but never one that was used within the last three hours (parallel
    # runs on scratch worktrees / snapshots each have their own tree hash)
    now = time.time()
    others = sorted((d for d in os.listdir(xdgroot) if d != th),
                    key=lambda d: os.path.getmtime(os.path.join(xdgroot, d)))
    for d in others[:-1]:
        if now - os.path.getmtime(os.path.join(xdgroot, d)) > 3 * 3600:
            shutil.rmtree(os.path.join(xdgroot, d), ignore_errors=True)
    os.utime(base, None)
    path = base if subdir is None else os.path.join(base, subdir)
    os.makedirs(path, exist_ok=True)
    os.environ["XDG_CACHE_HOME"] = path
    return path, th
