"""Outcome accumulator shared by all drivers, evidence writer, findings matcher."""
import hashlib
import json
import os
import time

VERIF = os.path.dirname(os.path.dirname(os.path.abspath(__file__)))


def jsonable(x):
    import numpy as np
    if isinstance(x, dict):
        return {str(k): jsonable(v) for k, v in x.items()}
    if isinstance(x, (list, tuple, set, frozenset)):
        xs = list(x)
        if isinstance(x, (set, frozenset)):
            try:
                xs = sorted(xs)
            except TypeError:
                xs = sorted(xs, key=repr)
        return [jsonable(v) for v in xs]
    if isinstance(x, np.ndarray):
        return jsonable(x.tolist())
    if isinstance(x, (np.integer,)):
        return int(x)
    if isinstance(x, (np.floating,)):
        return float(x)
    if isinstance(x, (np.bool_,)):
        return bool(x)
    if isinstance(x, float):
        if x != x or x in (float("inf"), float("-inf")):
            return repr(x)
        return x
    if isinstance(x, (int, str, bool)) or x is None:
        return x
    return repr(x)


class Violation:
    """One discrepancy: `case` is everything check_case needs to reproduce it, `key` the canonical
    signature matched against known_findings.json, `what` a human-readable description."""
    def __init__(self, key, what, case):
        self.key = key
        self.what = what
        self.case = case

    def to_json(self):
        return {"key": self.key, "what": self.what, "case": jsonable(self.case)}


class Outcome:
    def __init__(self):
        self.states = 0
        self.transitions = 0
        self.traces = 0
        self.evaluations = 0
        self.nontrivial = set()        # distinct non-trivial case signatures (measured)
        self.nontrivial_extra = 0      # counts measured in workers (already distinct by construction)
        self.rule = ""
        self.samples = []
        self.exhaustive = True
        self.caps_hit = []
        self.assumptions = []
        self.violations = []
        self.outcomes = set()          # distinct observable results (vacuity indicator)
        self.extra = {}
        self.parts = {}                # per sub-check counters

    # -- counters -------------------------------------------------------------------------------
    def part(self, name, **kw):
        d = self.parts.setdefault(name, {})
        for k, v in kw.items():
            if isinstance(v, (int, float)) and not isinstance(v, bool):
                d[k] = d.get(k, 0) + v
            else:
                d[k] = v
        return d

    def sample(self, s, limit=6):
        if len(self.samples) < limit:
            self.samples.append(jsonable(s))

    def add_violation(self, key, what, case):
        self.violations.append(Violation(key, what, case))

    def merge(self, other):
        self.states += other.states
        self.transitions += other.transitions
        self.traces += other.traces
        self.evaluations += other.evaluations
        self.nontrivial |= other.nontrivial
        self.nontrivial_extra += other.nontrivial_extra
        for s in other.samples:
            self.sample(s)
        self.exhaustive = self.exhaustive and other.exhaustive
        self.caps_hit += other.caps_hit
        self.violations += other.violations
        self.outcomes |= other.outcomes
        for k, d in other.parts.items():
            self.part(k, **d)


def write_evidence(prop, tier, seed, level, out, wall, n_viol, n_known):
    cov = {
        "states": max(int(out.states), 0),
        "transitions": max(int(out.transitions), 0),
        "traces_validated_against_impl": int(out.traces),
        "evaluations": int(out.evaluations),
        "distinct_nontrivial": int(len(out.nontrivial) + out.nontrivial_extra),
        "rule": out.rule,
        "samples": out.samples[:8] if out.samples else [],
        "exhaustive": bool(out.exhaustive and not out.caps_hit),
        "caps_hit": out.caps_hit,
        "distinct_outcomes": len(out.outcomes),
        "parts": jsonable(out.parts),
        "known_findings_reported": n_known,
    }
    cov.update(jsonable(out.extra))
    ev = {
        "property_id": prop,
        "tier": tier,
        "seed": int(seed),
        "level": level,
        "coverage": cov,
        "assumptions": list(out.assumptions),
        "wall_s": round(float(wall), 2),
        "violations": int(n_viol),
    }
    evdir = os.environ.get("VERIF_EVIDENCE_DIR") or os.path.join(VERIF, "evidence")
    os.makedirs(evdir, exist_ok=True)
    path = os.path.join(evdir, prop + ".json")
    try:
        import jsonschema
        with open("/root/.vp/EVIDENCE.schema.json") as f:
            schema = json.load(f)
        jsonschema.validate(ev, schema)
    except ImportError:
        pass
    except FileNotFoundError:
        pass
    tmp = path + ".tmp%d" % os.getpid()
    with open(tmp, "w") as f:
        json.dump(ev, f, indent=1, sort_keys=True)
        f.write("\n")
    os.replace(tmp, path)
    return path


def load_findings():
    p = os.path.join(VERIF, "known_findings.json")
    try:
        with open(p) as f:
            return json.load(f)
    except FileNotFoundError:
        return []


def write_replay(prop, v):
    d = os.path.join(os.environ.get("VERIF_REPLAY_DIR") or os.path.join(VERIF, "replays"), prop)
    os.makedirs(d, exist_ok=True)
    blob = json.dumps({"property": prop, **v.to_json()}, indent=1, sort_keys=True)
    sha = hashlib.sha256(blob.encode()).hexdigest()[:12]
    path = os.path.join(d, sha + ".json")
    with open(path, "w") as f:
        f.write(blob + "\n")
    return path
