"""E1: explicit-state breadth-first exploration of a *real* transition function.

A state is the event history that reaches it.  Every successor is produced by the implementation's own
transition (`step`); `canon` projects a state to a hashable canonical form for deduplication.  The
search is level-synchronous; the frontier of each depth is expanded in forked workers.
"""
import hashlib
import pickle

from . import par


class Graph:
    def __init__(self):
        self.rep = {}          # canon digest -> shortest history (list of events)
        self.depth = {}        # canon digest -> BFS depth
        self.edges = []        # (src digest, event, dst digest) if keep_edges
        self.transitions = 0
        self.max_depth = 0
        self.closed = True     # False if a bound/cap stopped the search before the frontier was empty
        self.problems = []     # (kind, history, event, payload) returned by on_state / on_transition

    @property
    def states(self):
        return len(self.rep)


def digest(c):
    return hashlib.blake2b(pickle.dumps(c, protocol=4), digest_size=16).digest()


_CFG = None


def _expand(history):
    build, enabled, step, canon, on_transition, on_state = _CFG
    s = build(history)
    probs = []
    if on_state is not None:
        for p in on_state(s, history) or []:
            probs.append(("state", history, None, p))
    succ = []
    for ev in enabled(s):
        s2 = step(s, ev, history)
        if on_transition is not None:
            for p in on_transition(s, ev, s2, history) or []:
                probs.append(("transition", history, ev, p))
        succ.append((ev, digest(canon(s2))))
    return probs, succ


def explore(initial, build, enabled, step, canon, on_transition=None, on_state=None,
            max_depth=None, cap_states=None, workers=None, keep_edges=False):
    """initial: list of histories (usually [[]]).  build(history) -> fresh real object with the history
    replayed.  step(state, event, history) -> successor state (must not alias `state`)."""
    global _CFG
    _CFG = (build, enabled, step, canon, on_transition, on_state)
    g = Graph()
    frontier = []
    for h in initial:
        d = digest(canon(build(h)))
        if d not in g.rep:
            g.rep[d] = list(h)
            g.depth[d] = 0
            frontier.append(list(h))
    depth = 0
    while frontier:
        if max_depth is not None and depth >= max_depth:
            # states at the bound still get their invariants checked, but are not expanded
            if on_state is not None:
                saved = _CFG
                _CFG = (build, lambda s: [], step, canon, on_transition, on_state)
                for probs, _ in par.pmap(_expand, frontier, workers):
                    g.problems += probs
                _CFG = saved
            g.closed = False
            break
        results = par.pmap(_expand, frontier, workers)
        nxt = []
        for h, (probs, succ) in zip(frontier, results):
            g.problems += probs
            src = None
            for ev, d in succ:
                g.transitions += 1
                if keep_edges:
                    if src is None:
                        src = digest(canon(build(h))) if False else None
                    g.edges.append((tuple(h), ev, d))
                if d not in g.rep:
                    g.rep[d] = h + [ev]
                    g.depth[d] = depth + 1
                    nxt.append(h + [ev])
        depth += 1
        if nxt:
            g.max_depth = depth
        if cap_states is not None and len(g.rep) > cap_states:
            g.closed = False
            # invariants of the discovered-but-unexpanded states are still evaluated
            if on_state is not None and nxt:
                saved = _CFG
                _CFG = (build, lambda s: [], step, canon, on_transition, on_state)
                for probs, _ in par.pmap(_expand, nxt, workers):
                    g.problems += probs
                _CFG = saved
            break
        frontier = nxt
    return g
